"""
C08 - X12 -> XML -> X12 is the identity on structurally valid documents.

Space (complete enumeration, no sampling), every document generated over the independent grammar (mc.gen):
  plan    every conformant document of every selectable map within one deviation of the minimal one
          (gen.plans_d1: min, max lengths, last codes, all, all-filled, 2 sets / groups / interchanges, every
          include: / repeat2: / repeatmax: / fill: deviation); quick leaves the fill: deviations to thorough,
          thorough also runs every document in foreign delimiters and adds every PAIR of loop-level
          deviations (include/repeat2 of loops) per map
  payload per map one document (all-filled, else all, else min with every optional element filled, else min) whose free-text AN elements all carry one
          payload of PAYLOADS (padded to the element's minimum length, left alone where it exceeds the
          maximum length) x DELIMS
  notused per map one document in which every element / component the map marks not-used carries a value
  trailing per map one document written with every trailing empty element / component separator kept

Oracle (written from the statement, reads only mc.grammar / mc.gen data, never pyx12's verdict):
  the XML parses strictly (xml.etree); the i-th <seg> is the i-th source segment; its chain of <loop id>
  ancestors spells the grammar loop path of the generating node (transparent wrapper loops included); XML
  loop elements at a non-transparent loop path are in bijection with the generated instances (Doc.lpaths);
  ele / subele (and comp) ids are reference designators and the values sit at the positions the ids name;
  xmlx12_simple.convert gives back the same segment list (reference tokenizer) modulo delimiters, ISA11 /
  ISA16, not-used elements and trailing empties.
"""
import io, re, copy, itertools
import xml.etree.ElementTree as ET
from mc import core, corpus, gen, ref
from mc import grammar as G

ID = 'C08'
LEVEL = 'exploration'

PAYLOADS = ['&', '<', '>', "'", '"', '&amp;', ']]>', ' a', 'a  b', 'a&b<c>', '&#65;', '<!--', 'a\'"b', 'a ', '  ', '\xe9', '{x}', '{', '}', '{{a}}', '{0}', '%s', '%(a)s', '\\', '\\n', '$a', '`']
DELIMS = [('~', '*', ':'), ('!', '|', '>'), ('$', '|', '+')]
OUT_DELIMS = '~*:^'
KEEP = ('ISA', 'GS', 'ST', 'SE', 'GE', 'IEA', 'HL', 'LX', 'BHT')     # segments whose values steer the envelope / map choice
QUICK_KINDS = ('min', 'min-maxlen', 'lastcode', 'all', 'all-filled', 'all-swapped', 'all-filled-swapped', 'two-sets', 'two-groups', 'two-interchanges', 'all-twice', 'all-filled-two-groups',
               'include:', 'repeat2:', 'repeatmax:', 'ta1-', 'signed')


# ---------------------------------------------------------------------------------------------------
# corpus (deterministic; a case names a document by entry + family + plan name, evaluate() rebuilds it)
# ---------------------------------------------------------------------------------------------------
def entry_of(fname):
    for e in corpus.one_entry_per_map():
        if e[4] == fname:
            return e
    raise KeyError(fname)


def loop_devs(entry):
    """loop-level single deviations (for the pair family)"""
    root = G.load(entry[4])
    out = []
    for name, plan in (list(gen.plans_d1(entry)) + list(gen.plans_swapped(entry))):
        if name.startswith(('include:', 'repeat2:')):
            n = gen.find(root, name.split(':', 1)[1])
            if n is not None and n.kind == 'loop':
                out.append((name, plan))
    return out


def merge(p1, p2):
    p = {}
    inc = set(p1.get('include', ())) | set(p2.get('include', ()))
    if inc:
        p['include'] = inc
    rep = dict(p1.get('repeat', {}))
    rep.update(p2.get('repeat', {}))
    if rep:
        p['repeat'] = rep
    return p


def plan_names(entry, family, thorough):
    if family == 'plan':
        for name, plan in (list(gen.plans_d1(entry)) + list(gen.plans_swapped(entry))):
            if thorough or name.startswith(QUICK_KINDS):
                yield name
                if entry[3] is not None and 'groups' not in plan and 'interchanges' not in plan:
                    # the map of this document is chosen inside the set (278: by BHT02): the same document in two groups,
                    # so that the choice is made again after the group header has reset it
                    yield name + '@2g'
    elif family == 'pair':
        devs = loop_devs(entry)
        for (a, pa), (b, pb) in itertools.combinations(devs, 2):
            if a.split(':', 1)[1] == b.split(':', 1)[1]:
                continue        # include X + repeat2 X is the repeat2 X document
            yield a + '+' + b
    elif family == 'payload':
        for i in range(len(PAYLOADS)):
            yield str(i)
    elif family == 'mixed':
        for other in MIXED:
            if other != entry[4]:
                yield other
    elif family == 'notused':
        yield 'N'
    elif family == 'renumbered':
        for v in ('lx', 'hl', 'both'):
            yield v
    elif family == 'subsep':
        yield 'S'
    elif family == 'trailing':
        yield 'T'


# files that hold interchanges of different maps and versions (the XML -> X12 writer sees several ISA versions)
MIXED = ('834.4010.X095.A1.xml', '834.5010.X220.A1.xml', '835.5010.X221.A1.xml', '997.4010.xml', '999.5010.xml')


def plan_by_name(entry, name):
    d = dict((n, p) for n, p in (list(gen.plans_d1(entry)) + list(gen.plans_swapped(entry))))
    if name.endswith('@2g'):
        return dict(plan_by_name(entry, name[:-3]), groups=2)
    if '+' in name:
        a, b = name.split('+')
        return merge(d[a], d[b])
    return d[name]


def base_doc(entry):
    for plan in ({'all': True, 'fill_all': True}, {'all': True}, {'fill_all': True}, {}):
        d = corpus.build_ok(entry, dict(plan))
        if d is not None:
            return d
    return None


def clone(base):
    d = gen.Doc()
    d.segs = [[list(v) if isinstance(v, list) else v for v in s] for s in base.segs]
    d.nodes = base.nodes; d.lpaths = base.lpaths; d.plan = base.plan; d.entry = base.entry
    return d


def is_freetext(c):
    de = G.dataele().get(c.de)
    return (c.kind == 'ele' and de is not None and de[0] == 'AN' and not c.codes and not c.ext and not c.regex and c.usage != 'N')


def pad(payload, mn, mx):
    if len(payload) > mx:
        return None
    return payload + 'x' * max(0, mn - len(payload))


def payload_doc(entry, payload, simple_only=False):
    """-> (Doc, number of elements carrying the payload)"""
    base = base_doc(entry)
    if base is None:
        return None, 0
    d = clone(base)
    de = G.dataele()
    n = 0
    for s, node in zip(d.segs, d.nodes):
        if s[0] in KEEP:
            continue
        q, _w = G.qual_ele(node)
        for c in node.children:
            if c.seq >= len(s):
                continue
            if c.kind == 'ele':
                if c is q or not is_freetext(c) or s[c.seq] == '' or isinstance(s[c.seq], list):
                    continue
                v = pad(payload, de[c.de][1], de[c.de][2])
                if v is not None:
                    s[c.seq] = v; n += 1
            elif c.usage != 'N' and isinstance(s[c.seq], list) and not simple_only:
                for k, x in enumerate(c.children):
                    if x is q or not is_freetext(x) or k >= len(s[c.seq]) or s[c.seq][k] == '':
                        continue
                    v = pad(payload, de[x.de][1], de[x.de][2])
                    if v is not None:
                        s[c.seq][k] = v; n += 1
    return d, n


def notused_doc(entry):
    """every not-used element / component (of a present composite) gets a value of its own type"""
    base = base_doc(entry)
    if base is None:
        return None, 0
    d = clone(base)
    n = 0
    for s, node in zip(d.segs, d.nodes):
        if s[0] in KEEP:
            continue
        for c in node.children:
            if c.kind == 'ele' and c.usage == 'N':
                try:
                    v = gen.type_value(c.de)
                except (gen.Ungeneratable, KeyError):
                    continue
                while len(s) <= c.seq:
                    s.append('')
                s[c.seq] = v; n += 1
            elif c.kind == 'comp' and c.usage == 'N' and c.children:
                try:
                    v = gen.type_value(c.children[0].de)
                except (gen.Ungeneratable, KeyError):
                    continue
                while len(s) <= c.seq:
                    s.append('')
                s[c.seq] = [v]; n += 1
            elif c.kind == 'comp' and c.usage != 'N' and c.seq < len(s) and isinstance(s[c.seq], list):
                for k, x in enumerate(c.children):
                    if x.usage == 'N':
                        try:
                            v = gen.type_value(x.de)
                        except (gen.Ungeneratable, KeyError):
                            continue
                        while len(s[c.seq]) <= k:
                            s[c.seq].append('')
                        s[c.seq][k] = v; n += 1
    return d, n


def renumbered_doc(entry, what):
    """the fields a sender numbers himself (LX01 service line numbers, HL01/HL02 hierarchy ids) with values a fresh counter
    would not give: numbering continued over the whole set instead of restarting, ids offset by 10.  Every segment is
    still located in its map (the numbers are data); the round trip must bring back the numbers of the document"""
    d = None
    for plan in ({'all': True, 'fill_all': True, 'sets': 2}, {'all': True, 'sets': 2}, {'sets': 2}):
        d = corpus.build_ok(entry, dict(plan))
        if d is not None:
            break
    if d is None:
        return None, 0
    d = clone(d)
    n = 0
    lx = 2
    for s in d.segs:
        if s[0] == 'ST':
            lx = 2
        if s[0] == 'LX' and what in ('lx', 'both') and len(s) > 1:
            lx += 1
            s[1] = str(lx); n += 1
        if s[0] == 'HL' and what in ('hl', 'both') and len(s) > 2:
            s[1] = str(int(s[1]) + 10)
            if s[2] != '':
                s[2] = str(int(s[2]) + 10)
            n += 1
    return d, n


def untrimmed_text(doc, seg_t, ele_t, sub_t):
    """every segment written with all the element separators of its definition and every present composite with
    all its component separators (trailing empties kept)"""
    out = []
    for s, node in zip(doc.segs, doc.nodes):
        parts = [s[0]]
        for c in node.children:
            v = s[c.seq] if c.seq < len(s) else ''
            if isinstance(v, list):
                v = sub_t.join(list(v) + [''] * (len(c.children) - len(v)))
            parts.append(v)
        if s[0] == 'ISA':
            parts[16] = sub_t
        out.append(ele_t.join(parts) + seg_t)
    return ''.join(out)


def make_doc(case):
    """-> (Doc or None, skip reason, info)"""
    entry = entry_of(case['map'])
    fam = case['family']
    info = 0
    try:
        if fam in ('plan', 'pair'):
            d = gen.build(entry, plan_by_name(entry, case['plan']))
        elif fam == 'mixed':
            d1 = corpus.build_ok(entry, {})
            d2 = corpus.build_ok(entry_of(case['plan']), {'groups': 2})
            if d1 is None or d2 is None:
                return None, 'no base document', 0
            return gen.concat(d1, d2), None, 0
        elif fam == 'payload':
            d, info = payload_doc(entry, PAYLOADS[int(case['plan'])])
        elif fam == 'trailing':
            d = base_doc(entry)
            info = len(d.segs) if d is not None else 0
        elif fam == 'renumbered':
            d, info = renumbered_doc(entry, case['plan'])
        elif fam == 'subsep':
            # the document's own component separator inside SIMPLE free-text elements (a URL, a time): an element data error
            # at most -- the segment is still located in its map, and the whole element text makes the round trip
            d, info = payload_doc(entry, 'A' + DELIMS[case.get('delims', 0)][2] + 'B' + DELIMS[case.get('delims', 0)][2] + 'C', simple_only=True)
        else:
            d, info = notused_doc(entry)
    except gen.Ungeneratable:
        return None, 'not generatable', 0
    if d is None:
        return None, 'no base document', 0
    if fam in ('payload', 'notused', 'renumbered', 'subsep') and info == 0:
        return None, 'no target element in the base document', 0
    if gen.selfcheck(d):
        return None, 'reference parser does not reproduce the generating nodes', 0
    return d, None, info


# ---------------------------------------------------------------------------------------------------
# oracle
# ---------------------------------------------------------------------------------------------------
def src_values(s):
    """source segment -> {pos: str | {sub: str}} of non-empty values"""
    out = {}
    for p, v in enumerate(s[1:], 1):
        if isinstance(v, list):
            d = dict((k, x) for k, x in enumerate(v, 1) if x != '')
            if d:
                out[p] = d
        elif v != '':
            out[p] = v
    return out


def child_at(node, pos):
    for c in node.children:
        if c.seq == pos:
            return c
    return None


def sub_at(comp, k):
    return comp.children[k - 1] if comp is not None and comp.kind == 'comp' and 0 < k <= len(comp.children) else None


def transition(prev, cur):
    """label of the loop transition between two consecutive generating nodes (coverage only)"""
    a = prev.path.split('/')[1:-1]; b = cur.path.split('/')[1:-1]
    k = 0
    while k < min(len(a), len(b)) and a[k] == b[k]:
        k += 1
    first = cur is cur.parent.children[0]
    return 'pop%d push%d%s' % (len(a) - k, len(b) - k, ' first-of-loop' if first else '')


def check_xml(doc, xml, V, isa16=None):
    """appends (key, msg) to V; returns list of rebuilt segments [id, {pos: val}] or None"""
    try:
        root = ET.fromstring(xml)
    except ET.ParseError as e:
        V.append(('C08|xml|not well-formed', 'xml.etree rejects the rendering: %s' % e))
        return None
    if root.tag != 'x12simple':
        V.append(('C08|xml|root element', 'root element is %r' % root.tag))
        return None
    found = []          # (seg element, [loop elements])

    def rec(el, chain):
        for ch in el:
            if ch.tag == 'loop':
                loops_seen.append((ch, chain + [ch]))
                rec(ch, chain + [ch])
            elif ch.tag == 'seg':
                found.append((ch, chain))
            else:
                V.append(('C08|xml|unexpected element outside a segment', '<%s> under <%s>' % (ch.tag, el.tag)))
    loops_seen = []
    rec(root, [])
    if len(found) != len(doc.segs):
        V.append(('C08|xml|segment count', '%d source segments, %d <seg> elements' % (len(doc.segs), len(found))))
        return None
    inst_of = {}        # id(loop element) -> (path, instance)
    elem_of = {}        # (path, instance) -> id(loop element)
    rebuilt = []
    for i, ((el, chain), s, node, lp) in enumerate(zip(found, doc.segs, doc.nodes, doc.lpaths)):
        if el.get('id') != s[0]:
            V.append(('C08|xml|segment id', 'segment %d is %s, <seg id=%r>' % (i, s[0], el.get('id'))))
            return None
        want = node.path.split('/')[1:-1]
        got = [l.get('id') for l in chain]
        if got != want:
            prev = doc.nodes[i - 1].path if i else None
            V.append(('C08|xml|loop nesting differs from the map path', 'segment %d %s (after %s): <loop> ancestors %r, map path %r'
                      % (i, node.path, prev, got, want)))
            continue
        inst = dict(lp)
        for k, l in enumerate(chain):
            path = '/' + '/'.join(want[:k + 1])
            if path not in inst:
                continue        # transparent wrapper: no instances of its own, the statement does not count them
            key = (path, inst[path])
            a = inst_of.setdefault(id(l), key)
            b = elem_of.setdefault(key, id(l))
            if a != key:
                V.append(('C08|xml|repeated loop shares one element', 'segment %d %s: instance %r is written into the element of instance %r' % (i, node.path, key, a)))
            elif b != id(l):
                V.append(('C08|xml|one loop instance split over several elements', 'segment %d %s: instance %r continues in a second <loop id=%r>' % (i, node.path, key, l.get('id'))))
        rebuilt.append(check_seg(i, el, s, node, V, isa16))
    # loop elements that hold no segment of their own path at all (opened and closed for nothing)
    used = set(id(l) for (el, chain) in found for l in chain)
    for l, chain in loops_seen:
        if id(l) not in used:
            V.append(('C08|xml|empty loop element', '<loop id=%r> under %r holds no segment' % (l.get('id'), [c.get('id') for c in chain[:-1]])))
            break
    return rebuilt


RE_ELE = re.compile(r'^(\d\d)\Z')
RE_SUB = re.compile(r'^(\d\d)-(\d{1,2})\Z')


def check_seg(i, el, s, node, V, isa16=None):
    sid = s[0]
    vals = {}
    last = 0
    for ch in el:
        cid = ch.get('id') or ''
        if ch.tag == 'ele':
            m = RE_ELE.match(cid[len(sid):]) if cid.startswith(sid) else None
            if m is None:
                V.append(('C08|xml|ele id is not a reference designator', 'segment %d %s: <ele id=%r>' % (i, node.path, cid)))
                continue
            p = int(m.group(1))
            if p <= last:
                V.append(('C08|xml|element order', 'segment %d %s: <ele id=%r> after position %d' % (i, node.path, cid, last)))
            last = max(last, p)
            if len(ch):
                V.append(('C08|xml|unexpected element inside ele', 'segment %d %s: %r has children' % (i, node.path, cid)))
            vals[p] = ch.text or ''
        elif ch.tag == 'comp':
            sub = {}
            pos = None
            lastk = 0
            for x in ch:
                xid = x.get('id') or ''
                m = RE_SUB.match(xid[len(sid):]) if (x.tag == 'subele' and xid.startswith(sid)) else None
                if m is None:
                    V.append(('C08|xml|subele id is not a reference designator', 'segment %d %s: <%s id=%r>' % (i, node.path, x.tag, xid)))
                    continue
                p, k = int(m.group(1)), int(m.group(2))
                if pos is None:
                    pos = p
                elif p != pos:
                    V.append(('C08|xml|one comp holds components of two elements', 'segment %d %s: %r inside composite %d' % (i, node.path, xid, pos)))
                if k <= lastk:
                    V.append(('C08|xml|component order', 'segment %d %s: %r after component %d' % (i, node.path, xid, lastk)))
                lastk = max(lastk, k)
                sub[k] = x.text or ''
            if pos is None:
                continue
            if pos <= last:
                V.append(('C08|xml|element order', 'segment %d %s: composite %d after position %d' % (i, node.path, pos, last)))
            last = max(last, pos)
            if cid != '%s%02d' % (sid, pos):
                V.append(('C08|xml|comp id is not the reference designator of the composite', 'segment %d %s: <comp id=%r> holds %s%02d-n' % (i, node.path, cid, sid, pos)))
            vals[pos] = sub
        else:
            V.append(('C08|xml|unexpected element inside seg', 'segment %d %s: <%s>' % (i, node.path, ch.tag)))
    # values sit where the ids say
    want = src_values(s)
    if sid == 'ISA' and isa16 is not None:
        want[16] = isa16        # the separator actually written in the source text
    for p in sorted(set(want) | set(vals)):
        w = want.get(p, ''); g = vals.get(p, '')
        c = child_at(node, p)
        nu = c is not None and c.usage == 'N'
        if isinstance(w, dict) or isinstance(g, dict):
            if not isinstance(w, dict):
                w = {1: w} if w != '' else {}
            if not isinstance(g, dict):
                g = {1: g} if g != '' else {}
            if nu and not g:
                continue
            for k in sorted(set(w) | set(g)):
                x = sub_at(c, k)
                if w.get(k, '') != g.get(k, ''):
                    if (nu or (x is not None and x.usage == 'N')) and g.get(k, '') == '':
                        continue
                    V.append(('C08|xml|component value', 'segment %d %s%02d-%d: source %r, XML %r' % (i, node.path, p, k, w.get(k, ''), g.get(k, ''))))
        elif w != g:
            if nu and g == '':
                continue
            V.append(('C08|xml|element value', 'segment %d %s%02d: source %r, XML %r' % (i, node.path, p, w, g)))
    return vals


def check_back(doc, back, V, src_sub=None):
    if not ref.header_ok(back):
        V.append(('C08|convert|output does not start with a well-formed ISA', 'first characters %r' % back[:110]))
        return
    toks, d = ref.tokenize(back)
    toks = [t for t in toks if t.id is not None]
    if len(toks) != len(doc.segs):
        V.append(('C08|convert|segment count', '%d source segments, %d converted back (%r ...)' % (len(doc.segs), len(toks), [t.id for t in toks][:8])))
        return
    for i, (t, s, node) in enumerate(zip(toks, doc.segs, doc.nodes)):
        if t.id != s[0]:
            V.append(('C08|convert|segment order', 'segment %d is %s, converted back as %s' % (i, s[0], t.id)))
            return
        got = {}
        for p, comps in enumerate(t.eles, 1):
            if len(comps) == 1:
                if comps[0] != '':
                    got[p] = comps[0]
            else:
                dd = dict((k, x) for k, x in enumerate(comps, 1) if x != '')
                if dd:
                    got[p] = dd
        want = src_values(s)
        if src_sub:
            # a source value written with the document's component separator inside IS several components (family subsep)
            for p in list(want):
                if isinstance(want[p], str) and src_sub in want[p]:
                    want[p] = dict((k, x) for k, x in enumerate(want[p].split(src_sub), 1) if x != '')
        if s[0] == 'ISA':
            # ISA16 always, ISA11 only in 00501, are delimiters (rewritten with the converter's own); in 00401 ISA11 is data
            for p in ((11, 16) if (len(s) > 12 and s[12] == '00501') else (16,)):
                want.pop(p, None); got.pop(p, None)
        for p in sorted(set(want) | set(got)):
            w = want.get(p, ''); g = got.get(p, '')
            c = child_at(node, p)
            nu = c is not None and c.usage == 'N'
            if isinstance(w, dict) and len(w) == 1 and 1 in w and not isinstance(g, dict):
                w = w[1]
            if isinstance(g, dict) and not isinstance(w, dict):
                w = {1: w} if w != '' else {}
            if isinstance(w, dict) and not isinstance(g, dict):
                g = {1: g} if g != '' else {}
            if w == g:
                continue
            if nu and g in ('', {}):
                continue
            if isinstance(w, dict):
                ok = True
                for k in set(w) | set(g):
                    x = sub_at(c, k)
                    if w.get(k, '') != g.get(k, '') and not ((x is not None and x.usage == 'N') and g.get(k, '') == ''):
                        ok = False
                if ok:
                    continue
            V.append(('C08|convert|value differs', 'segment %d %s%02d: source %r, converted back %r' % (i, node.path, p, w, g)))


def judge(case):
    """-> (violations, skip reason, coverage labels, info)"""
    from mc import pipe
    import pyx12.xmlx12_simple
    doc, skip, info = make_doc(case)
    if skip:
        return [], skip, [], 0
    seg_t, ele_t, sub_t = DELIMS[case.get('delims', 0)]
    bad = OUT_DELIMS + seg_t + ele_t + sub_t
    for s in doc.segs:
        if s[0] == 'ISA' or case['family'] == 'subsep':
            continue
        for v in s[1:]:
            for x in (v if isinstance(v, list) else [v]):
                if any(ch in bad for ch in x):
                    return [], 'data contains a source or output delimiter', [], 0
    if case['family'] == 'trailing':
        text = untrimmed_text(doc, seg_t, ele_t, sub_t)
    else:
        text = doc.text(seg_t, ele_t, sub_t, eol='\n' if case.get('delims', 0) == 0 else '')
    # the documented rendering option: a DOCTYPE naming the DTD (params 'simple_dtd'); default none
    dtd = {None: None, 'dtd-url': 'http://example.org/dtd/x12simple.dtd', 'dtd-file': 'x12simple.dtd'}[case.get('dtd')]
    o = pipe.run(text, sinks=('xml',), params=({'simple_dtd': dtd} if dtd else None))
    V = []
    if o.exc:
        if o.exc_where and o.exc_where.split(':')[0] in ('x12xml_simple.py', 'x12xml.py', 'xmlwriter.py'):
            V.append(('C08|xml|raises %s@%s' % (o.exc, o.exc_where), 'rendering raised %r' % o.exc_obj))
            return V, None, [], info
        return [], 'validation does not complete (C07 domain)', [], 0
    if len(o.nodes) != len(doc.segs) or any(n is None for n in o.nodes):
        return [], 'a segment was not located by the matcher (C02 domain)', [], 0
    if [n.split('[')[0] for n in o.nodes] != [n.path for n in doc.nodes]:
        # the rendering oracle is written against the grammar's nodes and cannot judge this XML (which node a segment
        # matches is C02's matter); the round trip is still owed: every segment of this document has a node in its map.
        # (Until round 10 the whole document was skipped here; the situation does not occur on the unchanged tree.)
        other_nodes = True
    else:
        other_nodes = False
    labels = set(transition(a, b) for a, b in zip(doc.nodes, doc.nodes[1:]))
    if other_nodes:
        labels = set(['matcher chose other nodes than the grammar: round trip only'])
    else:
        check_xml(doc, o.xml, V, sub_t)
    out = io.StringIO()
    try:
        pyx12.xmlx12_simple.convert(io.StringIO(o.xml), out)
    except ET.ParseError:
        if not any(k == 'C08|xml|not well-formed' for k, _ in V):
            V.append(('C08|convert|rejects XML that xml.etree accepts', 'convert raised ParseError'))
        return V, None, labels, info
    except Exception as e:
        V.append(('C08|convert|raises %s@%s' % (type(e).__name__, core.where(e)), 'converting the XML back raised %r' % e))
        return V, None, labels, info
    check_back(doc, out.getvalue(), V, sub_t if case['family'] == 'subsep' else None)
    # one key once per document
    seen = set(); V2 = []
    for k, m in V:
        if k not in seen:
            seen.add(k); V2.append((k, m))
    return V2, None, labels, info


def evaluate(case):
    return judge(case)[0]


# ---------------------------------------------------------------------------------------------------
def work(shard):
    fname, family, delims, part, nparts, thorough = shard
    P = core.Part()
    entry = entry_of(fname)
    dtd = None
    if family.startswith('plan@'):
        family, dtd = family.split('@')
    for i, name in enumerate(plan_names(entry, family, thorough)):
        if i % nparts != part:
            continue
        if dtd and name not in ('min', 'all-filled', 'two-interchanges'):
            continue
        case = {'map': fname, 'family': family, 'plan': name, 'delims': delims}
        if dtd:
            case['dtd'] = dtd
        P.n += 1
        V, skip, labels, info = judge(case)
        if skip:
            P.counters['skipped: ' + skip] += 1
            continue
        P.counters['documents judged: ' + family] += 1
        if family in ('payload', 'notused', 'trailing'):
            P.counters[('elements carrying a %s value' % family) if family != 'trailing' else 'segments written untrimmed'] += info
        for l in labels:
            P.out('%s|%s' % (family, l))
        for k, m in V:
            P.bad(k, case, '%s %s %s delims=%r: %s' % (fname, family, name, ''.join(DELIMS[delims]), m))
        if not V and P.n % 97 == 1:
            P.sample(case, cap=1)
    return P


def run(R):
    shards = []
    maps = [e[4] for e in corpus.one_entry_per_map()]
    for f in maps:
        big = f.startswith(('837', '278', '271', '834', '835'))
        for dl in ((0, 1) if R.thorough else (0,)):
            n = 8 if big else 2
            for p in range(n):
                shards.append((f, 'plan', dl, p, n, R.thorough))
        if f in MIXED:
            shards.append((f, 'mixed', 0, 0, 1, R.thorough))
        for dtd in ('dtd-url', 'dtd-file'):
            shards.append((f, 'plan@' + dtd, 0, 0, 1, R.thorough))
        for dl in range(len(DELIMS)):
            shards.append((f, 'payload', dl, 0, 1, R.thorough))
            shards.append((f, 'notused', dl, 0, 1, R.thorough))
            if dl == 0:
                shards.append((f, 'renumbered', dl, 0, 1, R.thorough))
                # only under ~ * : -- the converter writes with ':' whatever the source used, so under another source separator the
                # text comes back unchanged but no longer means several components; the statement does not settle that case
                shards.append((f, 'subsep', dl, 0, 1, R.thorough))
            shards.append((f, 'trailing', dl, 0, 1, R.thorough))
        if R.thorough:
            n = 48 if f.startswith('837') else (12 if big else 2)
            for p in range(n):
                shards.append((f, 'pair', 0, p, n, R.thorough))
    shards.sort(key=lambda sh: {'pair': 0, 'plan': 1}.get(sh[1], 2))      # long shards first
    R.pmap(work, shards)
    R.bounds = {
        'maps': '%d (one index entry per map file that the independent reader can load)' % len(maps),
        'plan': ('every gen.plans_d1 document (all single deviations incl. fill:) in ~*: and !|> delimiters' if R.thorough else
                 'gen.plans_d1 documents of kinds %s in ~*: delimiters' % ', '.join(QUICK_KINDS)),
        'pair': 'every pair of loop-level include:/repeat2: deviations per map' if R.thorough else 'not run',
        'payload': '%d payloads %r on all free-text AN elements of one all-filled document per map x %d delimiter sets %r' % (len(PAYLOADS), PAYLOADS, len(DELIMS), DELIMS),
        'options': 'the minimal, all-filled and two-interchange document of every map also rendered with params simple_dtd set (a URL, a file name): the DOCTYPE option of the XML sink',
        'mixed': 'files of two interchanges of different maps / versions: every ordered pair of %r (minimal document, then a two-group document)' % (MIXED,),
        'notused': 'one all-filled document per map with every not-used element / composite / component given a value x %d delimiter sets' % len(DELIMS),
        'trailing': 'one all-filled document per map written with all trailing empty elements and components of the definitions x %d delimiter sets' % len(DELIMS),
    }
    R.assumptions = [
        'structural validity is decided by the independent grammar (gen.selfcheck passes); documents on which validation raises or a segment is not located at all are skipped and counted (C07 / C02 domain); where the matcher reports other nodes than the generating ones the rendering oracle is not applied but the round trip is',
        'data never contain the output delimiters ~ * : ^ nor a delimiter of the source; payloads containing one are skipped for that delimiter set (counted)',
        'instances of transparent wrapper loops (first child is a loop) are not counted: the statement gives them no instances; their presence in the ancestor chain is demanded',
        'values of ISA, GS, ST, SE, GE, IEA, HL, LX, BHT are never replaced by payloads',
        'a component / element id is accepted as reference designator when it reads <segment id><2-digit position>[-<1-2 digit component>]',
    ]
    return R.finish(LEVEL, 'one document per execution (validate with XML sink, parse XML, convert back, tokenise); distinct = (family, loop transition kind pops/pushes/first-of-loop) seen between consecutive segments', exhaustive=True)
