"""development helper: confirm a seeded change in a scratch worktree and keep it under /verif/seeded/<name>/
usage: python -m mc.seedkeep <worktree> <name> <property> <check ids...>
Confirms: suite passes with the change; demo fails with it and passes without it; then runs the named quick checks
against the changed tree (VERIF_REPO) and records which report a violation."""
import sys, os, json, subprocess, shutil
V = os.path.dirname(os.path.dirname(os.path.abspath(__file__)))
wt, name, prop = sys.argv[1:4]
checks = sys.argv[4:]
env = dict(os.environ, PYTHONPATH=wt)


def sh(cmd, **kw):
    return subprocess.run(cmd, shell=True, cwd=wt, env=env, capture_output=True, text=True, **kw)


r = sh('/venv/bin/python -m pytest -q -p no:cacheprovider pyx12 2>&1 | tail -1')
suite = r.stdout.strip()
print('suite with change:', suite)
d1 = sh('/venv/bin/python seed_demo.py')
print('demo with change: exit', d1.returncode)
# NOT git stash: the stash is shared by all worktrees of a repository, concurrent users would swap their changes
cur = sh('git diff -- pyx12').stdout
if cur.strip() != open(os.path.join(wt, 'seed_patch.diff')).read().strip():
    print('NOT KEPT: the worktree does not hold exactly seed_patch.diff (restore it first)'); sys.exit(1)
r1 = sh('git apply -R seed_patch.diff')
d0 = sh('/venv/bin/python seed_demo.py')
r2 = sh('git apply seed_patch.diff')
if r1.returncode or r2.returncode or sh('git diff -- pyx12').stdout != cur:
    print('NOT KEPT: could not take the change out and put it back', r1.stderr, r2.stderr); sys.exit(1)
print('demo without change: exit', d0.returncode)
ok = ('454 passed' in suite) and d1.returncode != 0 and d0.returncode == 0
results = {}
for c in checks:
    e2 = dict(os.environ, VERIF_REPO=wt, VERIF_OUT='/tmp/seed/out', VERIF_JOBS=os.environ.get('VERIF_JOBS', '8'))
    r = subprocess.run([os.path.join(V, 'check'), c], env=e2, capture_output=True, text=True)
    keys = [l.strip() for l in r.stdout.splitlines() if l.strip().startswith('key=')]
    results[c] = {'exit': r.returncode, 'violations': len([l for l in r.stdout.splitlines() if l.startswith('VIOLATION')]), 'first_keys': [k[:200] for k in keys[:3]]}
    print(c, 'exit', r.returncode, keys[:2])
if not ok:
    print('NOT KEPT: preconditions failed'); sys.exit(1)
dst = os.path.join(V, 'seeded', name)
os.makedirs(dst, exist_ok=True)
shutil.copy(os.path.join(wt, 'seed_patch.diff'), os.path.join(dst, 'patch.diff'))
shutil.copy(os.path.join(wt, 'seed_demo.py'), os.path.join(dst, 'demo.py'))
meta = {}
try:
    meta = json.load(open(os.path.join(wt, 'seed_meta.json')))
except Exception:
    pass
meta.update({'property': prop, 'confirmed': {'suite_with_change': suite, 'demo_exit_with_change': d1.returncode, 'demo_exit_without_change': d0.returncode,
             'demo_output_with_change': (d1.stdout + d1.stderr)[-600:]},
             'checks_run': results, 'caught_by': [c for c, v in results.items() if v['exit'] == 1],
             'how_to_rerun': 'git -C /repo apply /verif/seeded/%s/patch.diff && ./check <ID>; git -C /repo checkout -- .   (or VERIF_REPO=<scratch worktree with the patch> ./check <ID>)' % name})
json.dump(meta, open(os.path.join(dst, 'meta.json'), 'w'), indent=1)
print('kept in', dst, 'caught by', meta['caught_by'])
