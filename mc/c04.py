"""
C04 - envelope, control-number and counter checks are exact.
E2: breadth-first search over all envelope/HL/LX segment sequences up to a depth, merged by the pair
(reader state projection, model summary).  Every transition re-reads the whole history with the real
X12Reader; oracle = independent recount (ref.recount) when the history nests properly, otherwise
'no exception and at least one envelope error by the end'.
"""
import io
from mc import core, ref, bfs

ID = 'C04'
LEVEL = 'model_checking'
ENV = {'isa': {'001', '021', '025', '023', '024'}, 'gs': {'3', '4', '5', '6'}, 'st': {'2', '3', '4', '23'}, 'seg': {'HL1', 'HL2', 'LX'}}
HDR = {'SE': 'ST', 'GE': 'GS', 'IEA': 'ISA'}


def fmt_id(k, i):
    if not isinstance(i, int):
        return {'ISA': (i * 9)[:9], 'GS': i, 'ST': i}[k]       # a non-numeric control number
    return {'ISA': '%09d' % i, 'GS': '%d' % i, 'ST': '%04d' % i}[k]


def numeq(oid):
    """a different text with the same numeric reading (or, for a non-numeric id, simply a different text)"""
    z = oid.lstrip('0')
    return z if (z and z != oid) else '0' + oid


def summary(segs):
    """model bookkeeping needed to materialise 'own id' and 'true count' (scan of the history)"""
    open_ = []; gs_n = st_n = seg_n = 0
    for s in segs:
        k = s[0]
        if k == 'ISA': open_.append(('ISA', s[13])); gs_n = 0
        elif k == 'GS': open_.append(('GS', s[6])); gs_n += 1; st_n = 0
        elif k == 'ST': open_.append(('ST', s[2])); st_n += 1; seg_n = 1
        elif k in HDR:
            for j in range(len(open_) - 1, -1, -1):
                if open_[j][0] == HDR[k]:
                    del open_[j:]
                    break
        else: seg_n += 1
    return open_, gs_n, st_n, seg_n


def materialise(hist):
    segs = [ref.isa(ctl='000000001')[:-1].split('*')]
    for ev in hist:
        k = ev[0]
        # a third field 'P' = the same control number used by ANOTHER partner / for another type: still a reuse
        if k == 'ISA': segs.append(ref.isa(ctl=fmt_id('ISA', ev[1]), **({'sender': 'OTHER', 'receiver': 'PARTNER'} if len(ev) > 2 else {}))[:-1].split('*'))
        elif k == 'GS': segs.append(['GS', 'HC'] + (['S', 'R'] if len(ev) < 3 else ['S2', 'R2']) + ['20040608', '1333', fmt_id('GS', ev[1]), 'X', '004010X098A1'])
        elif k == 'ST': segs.append(['ST', '837' if len(ev) < 3 else '835', fmt_id('ST', ev[1])])
        elif k == 'X': segs.append(['REF', 'A', 'B'])
        elif k == 'XB': segs.append(['REFX', 'A', 'B'])
        elif k in ('LS', 'LE'): segs.append([k, '2120'])     # bounded-loop markers: ordinary segments for the counts
        elif k == 'CLM': segs.append(['CLM', 'A', '1'])
        elif k == 'LX': segs.append(['LX', ev[1]] if ev[1] is not None else ['LX'])
        elif k == 'HL': segs.append(['HL', ev[1], ev[2], '20', '1'])
        else:
            open_, gs_n, st_n, seg_n = summary(segs)
            if ev[1] == 'bare':
                segs.append([k]); continue
            true = {'SE': seg_n + 1, 'GE': st_n, 'IEA': gs_n}[k]
            cnt = {'ok': str(true), '+1': str(true + 1), 'x': 'x', 'empty': ''}[ev[1]]
            own = [o for o in open_ if o[0] == HDR[k]]
            oid = own[-1][1] if own else fmt_id(HDR[k], 1)
            if ev[2] == 'other':
                oid = fmt_id(HDR[k], 7)
            elif ev[2] == 'numeq':
                oid = numeq(oid)
            elif ev[2] == 'alpha':
                oid = 'B' if oid != 'B' else 'C'
            segs.append([k, cnt, oid])
    return segs


def alphabet_narrow():
    evs = []
    for i in (1, 2):
        evs += [('ISA', i), ('GS', i), ('ST', i)]
    evs += [('X',), ('XB',), ('LS',), ('LE',), ('HL', '1', ''), ('HL', '2', '1')]
    for k in ('SE', 'GE', 'IEA'):
        for c in ('ok', '+1'):
            for i in ('own', 'other'):
                evs.append((k, c, i))
    return evs


def alphabet_lx_narrow():
    """deep, narrow: several groups / sets / claims with service lines (LX numbering across GE/GS, SE/ST, CLM)"""
    return [('GS', 1), ('GS', 2), ('ST', 1), ('ST', 2), ('CLM',), ('LX', '1'), ('LX', '2'), ('LX', ''), ('LX', None),     # LX* (blank number) and bare LX
            ('SE', 'ok', 'own'), ('GE', 'ok', 'own'), ('IEA', 'ok', 'own')]


def alphabet_ids():
    """control numbers as TEXT: numeric and non-numeric header ids, trailers that repeat the id, write the same
    number differently (17 / 017), or carry another non-numeric text"""
    evs = [('ISA', 1), ('ISA', 1, 'P'), ('GS', 1), ('GS', 1, 'P'), ('GS', 'A'), ('ST', 1), ('ST', 1, 'P'), ('ST', 'A'), ('X',)]
    for k in ('SE', 'GE', 'IEA'):
        for i in ('own', 'numeq', 'alpha'):
            evs.append((k, 'ok', i))
    return evs


def alphabet(thorough):
    evs = []
    for i in (1, 2):
        evs += [('ISA', i), ('GS', i), ('ST', i)]
    evs += [('X',), ('XB',), ('CLM',), ('LX', '1'), ('LX', '2')]
    for n in ('1', '2', '3'):
        for p in ('', '1', '2', 'x'):
            evs.append(('HL', n, p))
    for k in ('SE', 'GE', 'IEA'):
        for c in ('ok', '+1', 'x'):
            for i in ('own', 'other'):
                evs.append((k, c, i))
        evs.append((k, 'bare', 'own'))
        evs.append((k, 'empty', 'own'))
    return evs


def read(segs, lx):
    import pyx12.x12file
    text = '~'.join('*'.join(s) for s in segs) + '~'
    r = pyx12.x12file.X12Reader(io.StringIO(text))
    r.check_837_lx = lx
    per = []
    for s in r:
        per.append(sorted((e[0], e[1]) for e in r.pop_errors() if e[1] in ENV.get(e[0], ())))
    st = (tuple(r.loops), r.gs_count, r.st_count, r.seg_count, r.hl_count, tuple(r.hl_stack), tuple(r.isa_ids), tuple(r.gs_ids),
          tuple(r.st_ids), r.lx_count)
    r.cleanup()
    end = sorted((e[0], e[1]) for e in r.pop_errors() if e[1] in ENV.get(e[0], ()))
    return per, st, end


def step(hist, lx):
    """evaluate the LAST step of hist -> (key or None, viols, outcome)"""
    segs = materialise(hist)
    nest = ref.nests(segs)
    tag = 'lx' if lx else 'nolx'
    try:
        per, st, end = read(segs, lx)
    except Exception as e:
        return None, [('C04|%s|raises %s@%s' % ('nested' if nest else 'not-nested', type(e).__name__, core.where(e)),
                       'reading %s raised %r' % (['*'.join(s) for s in segs[1:]], e))], 'exc'
    viols = []
    if len(per) != len(segs):
        return None, [('C04|segments-lost', 'reader yielded %d of %d segments' % (len(per), len(segs)))], 'lost'
    if nest:
        exp, expend, loose = ref.recount(segs, lx)
        i = len(segs) - 1
        got = per[i]
        want = sorted(exp[i])
        if i in loose:
            got = [g for g in got if g[0] != 'seg']
            want = [g for g in want if g[0] != 'seg']
        if got != want:
            missing = [w for w in want if w not in got]
            extra = [g for g in got if g not in want]
            kind = ('missed ' + ','.join('%s/%s' % m for m in missing)) if missing else ('spurious ' + ','.join('%s/%s' % m for m in extra))
            viols.append(('C04|%s|%s at %s' % (tag, kind, segs[i][0]), 'history %s: reader reported %r at the last segment, recount says %r'
                          % (['*'.join(s) for s in segs[1:]], got, want)))
        if end != sorted(expend):
            viols.append(('C04|%s|cleanup' % tag, 'history %s: cleanup reported %r, recount says %r' % (['*'.join(s) for s in segs[1:]], end, sorted(expend))))
        model = ('nest', tuple(sorted(loose & {i})))
        outcome = 'nest|%s|%s' % (segs[i][0], ','.join(c for _, c in want))
    else:
        allerr = [e for p in per for e in p] + end
        envseen = any(e[0] in ('isa', 'gs', 'st') for e in allerr)
        if not envseen:
            viols.append(('C04|%s|not-nested-but-no-envelope-error' % tag, 'history %s is not properly nested, yet no isa/gs/st error by the end'
                          % (['*'.join(s) for s in segs[1:]])))
        model = ('nonest', envseen)
        outcome = 'nonest|%s' % envseen
    if viols:
        return None, viols, outcome
    # model summary needed for future expectations = function of (reader-equivalent bookkeeping); the reference's
    # own bookkeeping is recomputed from the history each step, so the key carries a projection of it
    open_, gs_n, st_n, seg_n = summary(segs)
    key = (tag, st, model, tuple(open_), gs_n, st_n, seg_n, hl_model(segs))
    return key, [], outcome


def hl_model(segs):
    """the reference's HL/LX bookkeeping at the end of the history (part of the canonical key)"""
    hl_n = 0; chain = []; err = False; lx = None; in_set = False
    for s in segs:
        k = s[0]
        if k == 'ST': hl_n = 0; chain = []; err = False; lx = None; in_set = True
        elif k == 'SE': in_set = False
        elif k == 'HL' and in_set:
            hl_n += 1
            p = s[2]
            if p != '':
                pi = ref.toint(p)
                if pi is None or pi not in chain: err = True; chain = []
                else: chain = chain[:chain.index(pi) + 1]
            chain.append(hl_n)
        elif k == 'CLM' and in_set: lx = 0
        elif k == 'LX' and in_set and lx is not None: lx += 1
    return (hl_n, tuple(chain), err, lx, in_set)


ALPHA = None


def expand_lx(hist):
    return _expand(hist, True)


def expand_nolx(hist):
    return _expand(hist, False)


def expand_narrow(hist):
    return _expand(hist, False, NARROW)


def expand_ids(hist):
    return _expand(hist, False, IDS)


def expand_lx_narrow(hist):
    return _expand(hist, True, LXNARROW)


LXNARROW = alphabet_lx_narrow()


NARROW = alphabet_narrow()
IDS = alphabet_ids()


def _expand(hist, lx, alpha=None):
    out = []
    for ev in (alpha or ALPHA):
        if not lx and ev[0] in ('LX', 'CLM'):
            continue
        h = hist + [ev]
        key, viols, outcome = step(h, lx)
        out.append((ev, key, viols, outcome))
    return out


def evaluate(case):
    hist = [tuple(e) for e in case['hist']]
    key, viols, outcome = step(hist, case.get('label') == 'lx')  # 'narrow' and 'nolx' run without the LX check
    return viols


def run(R):
    global ALPHA
    ALPHA = alphabet(R.thorough)
    d_lx, d_nolx, d_narrow = (6, 5, 7) if R.thorough else (5, 4, 6)
    s1 = bfs.search(R, expand_lx, [[]], d_lx, 'lx', max_states=3000000)
    s2 = bfs.search(R, expand_nolx, [[]], d_nolx, 'nolx')
    s3 = bfs.search(R, expand_narrow, [[]], d_narrow, 'narrow', max_states=3000000)
    d_lxn = 8 if R.thorough else 6
    s4 = bfs.search(R, expand_lx_narrow, [[]], d_lxn, 'lx', max_states=3000000)
    d_ids = 7 if R.thorough else 6
    s5 = bfs.search(R, expand_ids, [[]], d_ids, 'ids', max_states=3000000)
    R.cov['searches'] = [s1, s2, s3, s4, s5]
    R.bounds = {'alphabet': len(ALPHA), 'depth_lx': d_lx, 'depth_nolx': d_nolx, 'depth_narrow': d_narrow, 'narrow_alphabet': len(NARROW), 'depth_lx_narrow': d_lxn, 'lx_narrow_alphabet': len(LXNARROW), 'depth_ids': d_ids, 'ids_alphabet': len(IDS),
                'events': 'ISA/GS/ST with id 1|2, body, body with a malformed segment id, CLM, LX 1|2, HL n in 1..3 x parent in {none,1,2,x}, SE/GE/IEA x count {true,true+1,x,empty,bare} x id {own,other}; ids search: ISA/GS/ST with id 1 (also under another sender/receiver pair or set type) | A, SE/GE/IEA x id {own, same number written differently, other non-numeric text}'}
    R.assumptions = ['HL/LX verdicts are not compared outside a transaction set, after the first HL parent error of a set, or for LX before any CLM (left open by the statement)',
                     'states are merged on (reader attributes, reference bookkeeping); histories are replayed on a fresh reader for every transition']
    return R.finish(LEVEL, 'BFS over segment histories; distinct = (nesting, last segment id, expected error codes)', exhaustive=True)
