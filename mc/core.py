"""
Common machinery: run context, sharded exhaustive execution, violations -> replay artefacts,
known-findings matching, evidence writing.  See DESIGN.md section 2.1.

Every check module `mc/cXX.py` exposes

    ID, LEVEL
    run(R)              enumerate the space for R.tier, call R.note()/R.violation()
    evaluate(case)      re-execute ONE json-able case against the real code and return a list of
                        (finding_key, message) -- used by --replay and to confirm a violation twice
                        before it is reported (nondeterminism guard)
"""
import os, sys, json, time, hashlib, itertools, traceback, multiprocessing, collections

VERIF = os.path.dirname(os.path.dirname(os.path.abspath(__file__)))
REPO = os.environ.get('VERIF_REPO', '/repo')
NPROC = int(os.environ.get('VERIF_JOBS', '16'))
# evidence and replay artefacts go under OUT (default: /verif itself); seeded-mutation trials point it elsewhere
OUT = os.environ.get('VERIF_OUT', VERIF)


def bind_repo():
    """make sure `import pyx12` is the working tree under REPO, with logging silenced"""
    if sys.path[0] != REPO:
        sys.path.insert(0, REPO)
    import warnings, logging
    warnings.simplefilter('ignore')
    logging.disable(logging.CRITICAL)
    import pyx12
    here = os.path.realpath(os.path.dirname(pyx12.__file__))
    if not here.startswith(os.path.realpath(REPO) + os.sep):
        sys.stderr.write('HARNESS ERROR: pyx12 imported from %s, not %s\n' % (here, REPO))
        sys.exit(2)
    return pyx12


def sha(obj):
    return hashlib.sha1(json.dumps(obj, sort_keys=True, default=str).encode()).hexdigest()


def where(exc):
    """innermost pyx12 frame of an exception: 'file.py:function'"""
    tb = traceback.extract_tb(exc.__traceback__)
    loc = None
    for fr in tb:
        if '/pyx12/' in fr.filename and '/verif/' not in fr.filename:
            loc = '%s:%s' % (os.path.basename(fr.filename), fr.name)
    if loc is None and tb:
        loc = '%s:%s' % (os.path.basename(tb[-1].filename), tb[-1].name)
    return loc


class Part(object):
    """what a worker returns for one shard"""
    __slots__ = ('n', 'viol', 'outcomes', 'samples', 'counters', 'states', 'transitions')

    def __init__(self):
        self.n = 0
        self.viol = {}          # key -> (size, case, msg)   smallest case per key
        self.outcomes = set()
        self.samples = []
        self.counters = collections.Counter()
        self.states = 0
        self.transitions = 0

    def bad(self, key, case, msg):
        size = len(json.dumps(case, default=str))
        old = self.viol.get(key)
        if old is None or size < old[0]:
            self.viol[key] = (size, case, msg)
        self.counters['violating_cases'] += 1

    def out(self, o):
        self.outcomes.add(o)

    def sample(self, s, cap=3):
        if len(self.samples) < cap:
            self.samples.append(s)


def _call(args):
    fn, shard = args
    try:
        return fn(shard)
    except Exception as e:  # a harness bug: make it loud
        return ('HARNESS', ''.join(traceback.format_exception(type(e), e, e.__traceback__)))


class Run(object):
    def __init__(self, mod, tier, seed):
        self.mod = mod
        self.pid = mod.ID
        self.tier = tier
        self.seed = seed
        self.t0 = time.time()
        self.total = Part()
        self.cov = {}
        self.assumptions = []
        self.bounds = {}
        self.caps = []
        self.harness_errors = []

    @property
    def thorough(self):
        # modules whose complete space costs only seconds set FULL_IN_QUICK: both tiers then explore the same space
        return self.tier == 'thorough' or bool(getattr(self.mod, 'FULL_IN_QUICK', False))

    # ----- sharded execution --------------------------------------------------------------
    def order(self, shards):
        """VERIF_SEED only rotates shard order; the explored set is seed-independent"""
        shards = list(shards)
        if shards and self.seed:
            k = self.seed % len(shards)
            shards = shards[k:] + shards[:k]
        return shards

    def pmap(self, fn, shards, jobs=None, chunksize=1):
        """run fn(shard)->Part over all shards on a fork pool and merge"""
        shards = self.order(shards)
        jobs = jobs or NPROC
        if jobs <= 1 or len(shards) <= 1:
            for s in shards:
                self.merge(_call((fn, s)))
            return
        ctx = multiprocessing.get_context('fork')
        with ctx.Pool(min(jobs, len(shards))) as pool:
            for part in pool.imap_unordered(_call, [(fn, s) for s in shards], chunksize):
                self.merge(part)

    def merge(self, part):
        if isinstance(part, tuple) and part and part[0] == 'HARNESS':
            self.harness_errors.append(part[1])
            return
        t = self.total
        t.n += part.n
        t.states += part.states
        t.transitions += part.transitions
        t.outcomes |= part.outcomes
        t.counters.update(part.counters)
        for s in part.samples:
            if len(t.samples) < 6:
                t.samples.append(s)
        for k, v in part.viol.items():
            old = t.viol.get(k)
            if old is None or (v[0], json.dumps(v[1], sort_keys=True, default=str)) < (old[0], json.dumps(old[1], sort_keys=True, default=str)):
                t.viol[k] = v

    # ----- finishing ------------------------------------------------------------------------
    def finish(self, level, rule, exhaustive=True, extra=None):
        known, fixed = load_known(self.pid)
        nviol = 0
        lines = []
        for key in sorted(self.total.viol):
            size, case, msg = self.total.viol[key]
            kf = match_known(known, key)
            if kf is not None:
                lines.append('KNOWN-FINDING: property=%s %s [%s]' % (self.pid, kf['what'], key))
                continue
            # confirm twice in this (parent) process before believing it
            try:
                r1 = sorted(set(k for k, _ in self.mod.evaluate(case)))
                r2 = sorted(set(k for k, _ in self.mod.evaluate(case)))
            except Exception as e:
                self.harness_errors.append('replay of %s raised %r' % (key, e))
                continue
            if r1 != r2:
                self.harness_errors.append('nondeterministic replay for %s: %s vs %s' % (key, r1, r2))
                continue
            if key not in r1:
                self.harness_errors.append('violation %s did not reproduce on replay (got %s)' % (key, r1))
                continue
            nviol += 1
            d = os.path.join(OUT, 'replays', self.pid)
            os.makedirs(d, exist_ok=True)
            path = os.path.join(d, sha([key, case])[:16] + '.json')
            with open(path, 'w') as f:
                json.dump({'property': self.pid, 'key': key, 'message': msg, 'case': case,
                           'replay_cmd': './check %s --replay %s' % (self.pid, path)}, f, indent=1, default=str)
            lines.append('VIOLATION property=%s replay=%s' % (self.pid, path))
            lines.append('  key=%s  %s' % (key, msg))
        cov = {
            'evaluations': self.total.n,
            'distinct_nontrivial': len(self.total.outcomes),
            'rule': rule,
            'samples': self.total.samples[:6],
            'exhaustive': bool(exhaustive and not self.caps),
            'bounds': self.bounds,
            'caps_hit': self.caps,
            'counters': dict(self.total.counters),
            'known_findings_seen': sorted(k for k in self.total.viol if match_known(known, k) is not None),
        }
        if self.total.states:
            cov['states'] = self.total.states
            cov['transitions'] = self.total.transitions
            cov['traces_validated_against_impl'] = self.total.transitions
        cov.update(self.cov)
        if extra:
            cov.update(extra)
        ev = {'property_id': self.pid, 'tier': self.tier, 'seed': self.seed, 'level': level,
              'coverage': cov, 'assumptions': self.assumptions,
              'wall_s': round(time.time() - self.t0, 2), 'violations': nviol}
        os.makedirs(os.path.join(OUT, 'evidence'), exist_ok=True)
        with open(os.path.join(OUT, 'evidence', self.pid + '.json'), 'w') as f:
            json.dump(ev, f, indent=1, default=str)
        for l in lines:
            print(l)
        print('%s tier=%s seed=%d evaluations=%d distinct=%d states=%d transitions=%d violations=%d known=%d wall=%.1fs'
              % (self.pid, self.tier, self.seed, self.total.n, len(self.total.outcomes), self.total.states,
                 self.total.transitions, nviol, len(cov['known_findings_seen']), time.time() - self.t0))
        if self.harness_errors:
            for h in self.harness_errors[:5]:
                sys.stderr.write('HARNESS ERROR: %s\n' % h)
            return 2
        return 1 if nviol else 0


# ----- known findings ---------------------------------------------------------------------------
def load_known(pid):
    p = os.path.join(VERIF, 'known_findings.json')
    if not os.path.exists(p):
        return [], []
    d = json.load(open(p))
    known = [k for k in d.get('known', []) if k['property'] == pid]
    fixed = [k for k in d.get('fixed', []) if k.get('property') == pid]
    return known, fixed


def match_known(known, key):
    for k in known:
        if k['key'] == key:
            return k
    return None


# ----- E1: deviation-bounded stateless explorer ---------------------------------------------------
class ReplayDivergence(Exception):
    pass


class Ctx(object):
    """choice context for one execution; `prefix` is replayed, later points take the default 0"""

    def __init__(self, prefix):
        self.prefix = prefix
        self.points = []     # arity of each choice point met
        self.choices = []
        self.labels = []

    def choose(self, n, label=None):
        i = len(self.points)
        if n < 1:
            raise ReplayDivergence('choice point %d with no alternatives' % i)
        c = self.prefix[i] if i < len(self.prefix) else 0
        if c >= n:
            raise ReplayDivergence('recorded choice %d out of range %d at point %d' % (c, n, i))
        self.points.append(n)
        self.choices.append(c)
        self.labels.append(label)
        return c


def explore(driver, bound, visit, fixed_prefix=()):
    """iterative deviation bounding: run `driver(ctx)` for every choice vector with <= bound
    non-default choices.  visit(ctx, result) is called once per execution.  Returns executions."""
    n = 0
    fixed = len(fixed_prefix)

    def rec(prefix, devs):
        nonlocal n
        ctx = Ctx(prefix)
        res = driver(ctx)
        n += 1
        visit(ctx, res)
        if devs >= bound:
            return
        for i in range(max(len(prefix), fixed), len(ctx.points)):
            for alt in range(1, ctx.points[i]):
                rec(ctx.choices[:i] + [alt], devs + 1)
    rec(list(fixed_prefix), 0)
    return n


def chunks(seq, n):
    seq = list(seq)
    k = max(1, (len(seq) + n - 1) // n)
    return [seq[i:i + k] for i in range(0, len(seq), k)]
