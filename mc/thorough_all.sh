#!/bin/sh
# run every thorough tier in turn (development aid; used with `vp run`)
cd "$(dirname "$0")/.."
for id in ${IDS:-C13 C14 C16 C15 C17 C09 C08 C11 C12 C18 C19 C04 C01 C20 C10 C05 C06 C03 C02 C07}; do
  s=$(date +%s)
  ./check $id --tier thorough > /tmp/thor_$id.out 2>/tmp/thor_$id.err; rc=$?
  e=$(date +%s)
  echo "$id rc=$rc wall=$((e-s))s $(grep -c '^VIOLATION' /tmp/thor_$id.out) viol; $(tail -1 /tmp/thor_$id.out | cut -c1-170)"
  grep "key=" /tmp/thor_$id.out | cut -c1-300 | head -5
done
