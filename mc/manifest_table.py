def fill(chk, NA):
    chk('C13', 'model_checking',
        'complete enumeration of bounded value languages (all strings <=6/7 over a sign/digit/point alphabet, every year-month-day and clock combination, every code point) compared with recognisers written from the statement',
        'trusted: calendar.monthrange, the character tables transcribed from the statement; values longer than the bounds are not explored',
        'exhaustive enumeration of a finite input language against a reference recogniser', 'E1', 'DESIGN.md 3/C13')
    chk('C14', 'model_checking',
        'complete product of every syntax note in every shipped map x all segment lengths x all presence patterns, judged by the five X12 definitions; both the note evaluator and the element errors of segment validation are compared',
        'level 2 is differential against the same node with the note removed; trusted: my transcription of the five definitions',
        'exhaustive enumeration of a finite configuration x input product on the real code', 'E1', 'DESIGN.md 3/C14')
    chk('C01', 'model_checking',
        'every body up to length 6/7 over an 8-symbol alphabet (data, the three delimiters, LF, CR, blank), several delimiter triples, every read schedule with <=1/2 short reads at buffer sizes 1..8, boundary windows around the real 8 KiB refills, and three source kinds, all compared with a reference tokenizer written from the statement',
        'trusted: the 40-line reference tokenizer; data alphabet is {A,1}; the short-read menu for large reads is {1,2,half,full-2,full-1}; CR/LF following leading blanks is left open by the statement and skipped',
        'stateless exhaustive exploration with iterative deviation (short-read) bounding on the real reader', 'E1', 'DESIGN.md 3/C01')
    chk('C04', 'model_checking',
        'explicit-state BFS over all envelope/HL/LX segment histories up to depth 5/6 over a ~50-symbol alphabet (plus a narrower alphabet to depth 6/8), every transition executed on the real reader and compared with an independent recount; non-nesting histories are explored too (no exception, some envelope error)',
        'trusted: ref.recount/ref.nests (written from the statement); control numbers range over two values per level; HL/LX verdicts the statement leaves open are not compared',
        'explicit-state breadth-first search of the real reader paired with a reference model', 'E2', 'DESIGN.md 3/C04')
    chk('C02', 'model_checking',
        '(a) explicit-state BFS of the real walker paired with an independent grammar automaton: every grammar-permitted successor of every reachable (node, counter) state of every selectable map must land on the intended node with no error, and every segment no node can match must be refused; (b) every conformant document within one (quick) / two (thorough) deviations of the minimal document of every index entry through the whole validator with acknowledgement',
        'trusted: the independent map reading and first-match grammar (mc/grammar.py, mc/gen.py); documents the grammar itself finds ambiguous are skipped and counted; repeat counts are driven to max only when max<=10; two values per element',
        'explicit-state search over the real transition function (walk_tree.walk) with a reference grammar automaton, plus exhaustive bounded enumeration of conformant documents', 'E2+E3', 'DESIGN.md 3/C02')
    chk('C16', 'model_checking',
        'complete walk of the shipped configuration: all 36 index entries, all 31 map files, all ~30k nodes, both ways of locating the map directory, every qualifier probe of every same-position sibling group, every node fetched again by the path it reports; all compared with an independent XML reading',
        'trusted: mc/grammar.py as the reading of the XML and its qualifier convention; both locating modes resolve to the same directory under /repo, so only differences in how the code reads the files are visible',
        'exhaustive enumeration of a finite configuration space on the real loader, index and lookup functions', 'E1', 'DESIGN.md 3/C16')
    chk('C17', 'model_checking',
        'complete enumeration of a bounded path language (loop lists <=3/4 deep x segment id x qualifier x element x component, every string <=6 over a small alphabet as last component, ill-formed forms that must raise) against a regex-free recursive-descent parser, every node path of every loadable map, and an explicit-state BFS over set/get histories of length <=4/5 on Segments against a list-of-lists model with full read-back after every transition',
        'trusted: the reference parser and segment model in mc/c17.py; combinations the statement leaves open (element 00, component 0, trailing slash, ...) are executed and counted, not judged',
        'exhaustive product enumeration plus explicit-state breadth-first search over the real Segment/X12Path code', 'E1+E2', 'DESIGN.md 3/C17')
    chk('C03', 'fault_enumeration',
        'for every element, composite, segment and loop node of every selectable map (quick: one per definition signature) a conformant two-set carrier receives exactly one fault of every applicable kind of a 15-kind catalogue; the error tree must carry the predicted (segment position, element position, code, value), the AK3/AK4 or IK3/IK4 lines must itemise it, nothing else may be reported for non-structural kinds and the sibling set must stay accepted',
        'trusted: the grammar-based carrier generator and the applicability rules of the catalogue; faults on qualifier elements / syntax-note members are judged weakly (verdict false, error at that segment); out-of-place segments are decided at walker level by the C02 search',
        'exhaustive single-fault enumeration over all map nodes on the real validator', 'E3', 'DESIGN.md 3/C03')
    chk('C11', 'model_checking',
        'explicit-state BFS over all well-nested write histories of the real X12Writer to 8 (quick) / 12 (thorough) writes across 12 delimiter/eol/version settings plus 32 caller-delimiter settings; every state is also closed and re-read by the real X12Reader; every emitted text is compared with an independent list model; plus every prefix of regular multi-interchange documents',
        'trusted: the list model and expected-text formatter in mc/c11.py, ref.recount/ref.nests and the merge key (all writer attributes except the sink); the re-read leg relies on X12Reader, which C04 checks',
        'explicit-state breadth-first search of the real writer paired with a reference model', 'E2', 'DESIGN.md 3/C11')
    chk('C20', 'model_checking',
        'every combination of 42 documents (hand-built minimal interchanges and all suite sources, as shipped and count-clean) x 4 layouts x up to 5 delimiter triples x every single and pairwise IEA01/GE01/SE01/HL01 defect (plus HL shifts, reversals, swaps) x all 12 option combinations is run through the real x12norm.main() by file path; each output is compared with an independent tokenizer and recount for content preservation, one-segment-per-line layout, byte-for-byte idempotence and count repair',
        'trusted: mc/ref.py (tokenizer, nesting, recount) and the truth() count in mc/c20.py; bounded by the document catalogue, not all readable interchanges',
        'exhaustive bounded enumeration of inputs x defects x option configurations on the real command-line entry point', 'E1', 'DESIGN.md 3/C20')
    chk('C18', 'model_checking',
        'every sequence of length <=2 over 56 events (8 documents x validate / context-iterate x fresh / reused params / reused maps, plus XML->X12), thorough: every sequence of length 3 over a 24-event sub-alphabet, each executed on the real code in a pristine forked child; every event is compared byte for byte (documented timestamp / control-number fields masked) with the same event alone in a new interpreter under PYTHONHASHSEED 0-3, whose four baselines must themselves be identical; mutable default arguments are identity-checked after every sequence',
        'trusted: the fresh-interpreter baseline, the mask of exactly the exempted fields, and that a fork of an import-only process is pristine (checked by the length-1 sequences)',
        'exhaustive enumeration of bounded processing histories on the real code against a fresh-process reference', 'E1', 'DESIGN.md 3/C18')
    chk('C05', 'exploration',
        'every document of the shared corpora (conformant documents of every map, one target per C03 fault kind per map, all {1,2,3}^3 interchange x group x set shapes with and without a faulty set, the suite sources, every single structural mutation of three base documents) is validated with the acknowledgement sink; verdict, error tree (read through the visitor protocol) and the parsed acknowledgement are compared with an independent recount from the source text',
        'trusted: the reference tokenizer and the tree reader; group/set naming and totals are only compared when the envelope nests properly and every ST carries identifier and control number; AK404 equality is left to C06 when the value contains an acknowledgement delimiter',
        'exhaustive enumeration of bounded document families on the real validator with a recount oracle', 'E3', 'DESIGN.md 3/C05')
    chk('C06', 'exploration',
        'every acknowledgement produced for the C05 corpora plus hostile-echo documents (foreign delimiters; data containing ~ * : ^ LF in elements echoed to AK404/IK404 and in ISA/GS/ST fields echoed to the envelope, AK1 and AK2; 3-4 groups; 12 errors on one document) is re-read with the reader, recounted independently, matched line by line against the error tree, and validated again',
        'trusted: reference tokenizer/recount; re-validation may reject an acknowledgement only through element errors on fields that echo source data',
        'exhaustive enumeration of bounded document families on the real validator, acknowledgement parsed back and re-validated', 'E3', 'DESIGN.md 3/C06')
    chk('C10', 'model_checking',
        'every history of up to 3 (quick) / 4 (thorough) mutating tree-API calls over alphabets derived from the trees (42-59 events at full depth, 295-447 events at depth 1/2) is executed on the real x12context tree obtained from the real context reader and compared with a nested-list reference model after every call; an exists/count/first/select/get_value battery over all derived paths runs at every distinct state; three trees from two documents, copies and children of copies included',
        'trusted: the hand-written source documents, mc/grammar.py for positions and code lists, the model insertion/matching rules, the canonical-state projection; combinations the statement leaves open are counted, not judged',
        'explicit-state breadth-first search over API call histories of the real tree paired with a reference model', 'E2', 'DESIGN.md 3/C10')
    chk('C15', 'model_checking',
        'complete product: every element, sub-element and composite node of every loadable map (quick: one per definition signature) x a value catalogue derived from the node own definition (length boundaries, 14+ character classes, every inline code and near misses, members / non-members of external sets, dates, times, date-time periods under every qualifier, regex hit/miss) x both charsets x single and joint external-code exclusions, run through the real element_if / composite_if / segment_if is_valid and compared as a set of error codes plus result flag with a definition evaluator over an independent reading of the map, data-element and code-set XML',
        'trusted: mc/grammar.py, the C13 reference recognisers as type oracle, errh_list as observation point; combinations the statement leaves open are asserted only as far as it goes and counted',
        'exhaustive product enumeration over all map nodes on the real validation functions against a definition evaluator', 'E1', 'DESIGN.md 3/C15')
    chk('C12', 'model_checking',
        'every document of a per-map corpus (minimal, all-filled, one per C03 fault kind, 8 structural mutation operators at fixed positions) is re-encoded with every admissible combination of 4 segment terminators x 3 element separators x 3 component separators x 4 line-break conventions (thorough: all 126 under charset E / 42 under B; quick: base, all single-factor changes and a pairwise covering array) and run through the real validator; verdict, error set and acknowledgement body must equal those of the base encoding of the same delimiter-free matrix',
        'trusted: the reference tokenizer/encoder (mc/ref.py, c12.encode, cross-checked against gen.Doc.text), the tree reader and the C13 character tables; an offending value that itself carries component separators is compared modulo that separator',
        'exhaustive enumeration of delimiter/layout configurations per document with a metamorphic oracle on the real validator', 'E3+E1', 'DESIGN.md 3/C12')
