def fill(chk, NA):
    chk('C13', 'model_checking',
        'complete enumeration of bounded value languages (all strings <=6/7 over a sign/digit/point alphabet, every year-month-day and clock combination, every code point) compared with recognisers written from the statement',
        'trusted: calendar.monthrange, the character tables transcribed from the statement; values longer than the bounds are not explored',
        'exhaustive enumeration of a finite input language against a reference recogniser', 'E1', 'DESIGN.md 3/C13')
