def fill(chk, NA):
    chk('C13', 'model_checking',
        'complete enumeration of bounded value languages (all strings <=6/7 over a sign/digit/point alphabet, every year-month-day and clock combination, every code point) compared with recognisers written from the statement',
        'trusted: calendar.monthrange, the character tables transcribed from the statement; values longer than the bounds are not explored',
        'exhaustive enumeration of a finite input language against a reference recogniser', 'E1', 'DESIGN.md 3/C13')
    chk('C14', 'model_checking',
        'complete product of every syntax note in every shipped map x all segment lengths x all presence patterns, judged by the five X12 definitions; both the note evaluator and the element errors of segment validation are compared',
        'level 2 is differential against the same node with the note removed; trusted: my transcription of the five definitions',
        'exhaustive enumeration of a finite configuration x input product on the real code', 'E1', 'DESIGN.md 3/C14')
