"""
Reference models that are independent of pyx12: tokenizer, envelope recount, document builder.
"""
import re

ISA_LEN = 106


def isa(icvn='00401', seg='~', ele='*', sub=':', ctl='000000001', rep=None, sender='SENDER', receiver='RECEIVER', usage='P'):
    """a well-formed 106 character ISA"""
    i11 = 'U' if icvn == '00401' else (rep or '^')
    parts = ['ISA', '00', ' ' * 10, '00', ' ' * 10, 'ZZ', sender.ljust(15)[:15], 'ZZ', receiver.ljust(15)[:15],
             '040102', '1200', i11, icvn, ctl.rjust(9, '0')[:9], '0', usage, sub]
    s = ele.join(parts) + seg
    assert len(s) == ISA_LEN, len(s)
    return s


class Tok(object):
    __slots__ = ('id', 'eles', 'blank', 'raw', 'murky')

    def __init__(self, id, eles, blank, raw, murky=False):
        self.id = id; self.eles = eles; self.blank = blank; self.raw = raw; self.murky = murky

    def matrix(self):
        return [self.id, self.eles]


def header_ok(text):
    h = text[:ISA_LEN]
    if len(h) < ISA_LEN or h[:3] != 'ISA' or h[84:89] not in ('00401', '00501'):
        return False
    return True


def delims(text):
    return text[105], text[3], text[104]


def tokenize(text):
    """-> (list[Tok], (seg, ele, sub)); written from the C01 statement.
    Tok.murky marks pieces whose treatment the statement leaves open (CR/LF *after* leading blanks)."""
    assert header_ok(text)
    seg, ele, sub = delims(text)
    pieces = text.split(seg)[:-1]          # the unterminated tail is not a segment
    out = []
    for p in pieces:
        q = p.lstrip('\r\n')
        blank = q.startswith(' ')
        murky = False
        if blank:
            # the two documented normalisations compose: blanks and line breaks in front of a segment are dropped in
            # whatever order they come (fixed-width records: '~   CRLF GS...'); the blank is reported
            q2 = q.lstrip(' \r\n')
            if q2[:1] in ('\t', '\v', '\f') or (q2 == ''):
                murky = True
            q = q2
        if q == '':
            if blank:
                out.append(Tok(None, None, True, p, True))
            continue
        parts = q.split(ele)
        sid = parts[0]
        if sid == 'ISA':
            eles = [[x] for x in parts[1:]]
        else:
            eles = [x.split(sub) for x in parts[1:]]
        out.append(Tok(sid, eles, blank, p, murky))
    return out, (seg, ele, sub)


def trim(eles):
    """drop trailing empty components and trailing empty elements (the documented normalisation)"""
    e2 = []
    for comps in eles:
        c = list(comps)
        while len(c) > 1 and c[-1] == '':
            c.pop()
        e2.append(c)
    while e2 and e2[-1] == ['']:
        e2.pop()
    return e2


def normal_text(toks, d):
    seg, ele, sub = d
    out = []
    for t in toks:
        if t.id is None:
            continue
        e = trim(t.eles)
        if t.id == 'ISA':
            out.append(ele.join([t.id] + [c[0] for c in t.eles]) + seg)
        elif e:
            out.append(ele.join([t.id] + [sub.join(c) for c in e]) + seg)
        else:
            # a segment with no non-empty element is formatted with one separator; the suite pins this
            # (test_segment.FormatInvalid: 'AAA' -> 'AAA*~'), so it counts as documented normalisation
            out.append(t.id + ele + seg)
    return ''.join(out)


RE_SEGID = re.compile(r'^[A-Z][A-Z0-9]{1,2}\Z')


def segid_ok(s):
    return bool(s) and RE_SEGID.match(s) is not None


# ---------------------------------------------------------------------------------------------------
# envelope recount (C04 / C06 / C11 / C20), on a list of [id, e1, e2, ...] string lists
# ---------------------------------------------------------------------------------------------------
def toint(s):
    try:
        if s is None:
            return None
        return int(s)
    except ValueError:
        return None


def nests(segs):
    """headers and trailers nest properly: decided on the ISA/GS/ST/SE/GE/IEA subsequence only"""
    stack = []
    for s in segs:
        k = s[0]
        if k == 'ISA':
            if stack: return False
            stack.append('ISA')
        elif k == 'GS':
            if stack != ['ISA']: return False
            stack.append('GS')
        elif k == 'ST':
            if stack != ['ISA', 'GS']: return False
            stack.append('ST')
        elif k == 'SE':
            if stack != ['ISA', 'GS', 'ST']: return False
            stack.pop()
        elif k == 'GE':
            if stack != ['ISA', 'GS']: return False
            stack.pop()
        elif k == 'IEA':
            if stack != ['ISA']: return False
            stack.pop()
    return True     # envelopes still open at end of input are 'trailer missing', which nests


def val(s, i):
    return s[i] if i < len(s) else None


def recount(segs, check_lx=False):
    """for a properly nested list: per segment index the sorted list of expected (level, code), the
    list expected at cleanup, and `loose`: indexes whose HL/LX verdicts the statement leaves open
    (HL/LX outside a transaction set, HL2 after the first HL2 error of a set, LX before any CLM of a set).
    Written from the C04 statement; does not import pyx12."""
    per = [[] for _ in segs]
    isa_ids = []; gs_ids = []; st_ids = []
    gs_n = 0; st_n = 0; seg_n = 0
    hl_n = 0; hl_chain = []; lx_n = None
    open_ = []
    loose = set()
    hl2_err_in_set = False
    in_set = False
    for i, s in enumerate(segs):
        k = s[0]; e = per[i]
        if k == 'ISA':
            c = val(s, 13)
            if c in isa_ids: e.append(('isa', '025'))
            isa_ids.append(c); open_.append(('ISA', c)); gs_n = 0; gs_ids = []
        elif k == 'GS':
            c = val(s, 6)
            if c in gs_ids: e.append(('gs', '6'))
            gs_ids.append(c); gs_n += 1; open_.append(('GS', c)); st_n = 0; st_ids = []
        elif k == 'ST':
            c = val(s, 2)
            if c in st_ids: e.append(('st', '23'))
            st_ids.append(c); st_n += 1; open_.append(('ST', c)); seg_n = 1
            hl_n = 0; hl_chain = []; hl2_err_in_set = False; in_set = True; lx_n = None
        elif k == 'SE':
            h = open_.pop()
            if val(s, 2) != h[1]: e.append(('st', '3'))
            if toint(val(s, 1)) != seg_n + 1: e.append(('st', '4'))
            in_set = False
        elif k == 'GE':
            h = open_.pop()
            if val(s, 2) != h[1]: e.append(('gs', '4'))
            if toint(val(s, 1)) != st_n: e.append(('gs', '5'))
        elif k == 'IEA':
            h = open_.pop()
            if val(s, 2) != h[1]: e.append(('isa', '001'))
            if toint(val(s, 1)) != gs_n: e.append(('isa', '021'))
        else:
            seg_n += 1
            if not in_set:
                if k in ('HL', 'LX', 'CLM'):
                    loose.add(i)
                continue
            if k == 'HL':
                hl_n += 1
                if toint(val(s, 1)) != hl_n: e.append(('seg', 'HL1'))
                p = val(s, 2)
                if p not in (None, ''):
                    if hl2_err_in_set:
                        loose.add(i)
                    pi = toint(p)
                    if pi is None or pi not in hl_chain:
                        e.append(('seg', 'HL2'))
                        hl2_err_in_set = True
                        hl_chain = []
                    else:
                        hl_chain = hl_chain[:hl_chain.index(pi) + 1]
                hl_chain.append(hl_n)
            elif check_lx and k == 'CLM':
                lx_n = 0
            elif check_lx and k == 'LX':
                if lx_n is None:
                    loose.add(i)
                else:
                    lx_n += 1
                    if val(s, 1) != str(lx_n): e.append(('seg', 'LX'))
    end = []
    for (k, c) in open_:
        end.append({'ISA': ('isa', '023'), 'GS': ('gs', '3'), 'ST': ('st', '2')}[k])
    return per, end, loose
