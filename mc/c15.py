"""
C15 - element / composite validation enforces exactly what the map declares.

Complete product: every element, sub-element and composite node of every loadable shipped map
(quick: one node per definition signature) x a value catalogue derived from the node's own
definition (absent / empty, lengths min-1..max+1, one value per character class, trailing blanks,
every inline code and near misses, members / non-members of the external set, good / bad dates and
times, regex hit / miss) x charset {B, E} x external-code exclusions {none, this set, all sets}.

Three seams, all on the real map nodes:
  level E  element_if.is_valid(Element(v) | None, errh_list [, [qualifier]])
  level C  composite_if.is_valid(Composite | None, errh_list)          (errors grouped by refdes)
  level S  segment_if.is_valid(Segment, errh_list)  for every Date Time Period (data element 1251)
           under every qualifier (1250) value the map lists, and for every composite position
           (all-good, too many components, qualifier pairs) - so the qualifier context is real.

The oracle is a *definition evaluator* over mc.grammar (own XML reading of the map, dataele.xml and
codes.xml) written from the property statement; data-type membership is decided by the recognisers
of mc/c13.py.  It returns a set of codes (must) plus codes the statement leaves open (may); open
combinations (control character together with another violation, a not-used node carrying a value
that is also malformed, a qualifier value the map does not list, a partial regex match) are
asserted only as far as the statement goes and counted.
"""
import re, collections
from mc import core, grammar as G
from mc import c13

ID = 'C15'
LEVEL = 'model_checking'
FULL_IN_QUICK = True     # the complete space costs seconds: quick == thorough

FORMATS = ('D8', 'D6', 'DT', 'RD8', 'TM')
# ASC X12 control characters (basic set: BEL HT LF VT FF CR FS GS RS US; extended: SOH..ACK, DC1..ETB)
CTRL_X12 = set(chr(c) for c in (7, 9, 10, 11, 12, 13, 0x1c, 0x1d, 0x1e, 0x1f, 1, 2, 3, 4, 5, 6, 0x11, 0x12, 0x13, 0x14, 0x15, 0x16, 0x17))
CTRL_ALL = set(chr(c) for c in range(32)) | {chr(127)}
ALLCODES = frozenset(str(i) for i in range(1, 14))
E0 = frozenset()

DT_BY_QUAL = {'D8': '20040102', 'RD8': '20040102-20040103', 'TM': '1200', 'DT': '20040102', 'D6': '040102'}
DATEVALS = [('q:date8-good', '20040229'), ('q:date8-bad', '20040230'), ('q:date6-good', '040229'), ('q:date6-bad', '030229'),
            ('q:dt12-good', '200402291200'), ('q:dt12-bad', '200402292400'), ('q:time4-good', '1200'), ('q:time4-bad', '2400'),
            ('q:time6-good', '120059'), ('q:time5', '12000'), ('q:range-good', '20040101-20040229'),
            ('q:range-bad', '20040101-20040230'), ('q:range-half', '20040101-'), ('q:range-triple', '20040101-20040102-20040103'),
            ('q:alpha', 'ABCD'), ('q:date8-alpha', '2004022A'), ('q:date8-trailing-blank', '20040229 '),
            ('q:date8-day-00', '20040100'), ('q:date8-month-00', '20040001'), ('q:date6-day-00', '040100'),
            ('q:range-day-00', '20040100-20040131'), ('q:range-end-day-00', '20040101-20040200'), ('q:time4-min-60', '1260')]


# ---------------------------------------------------------------------------------------------------
# definitions (from the independent reading only)
# ---------------------------------------------------------------------------------------------------
class Def(object):
    __slots__ = ('usage', 'de', 't', 'mn', 'mx', 'codes', 'ext', 'regex', 'sub', 'first', 'pusage', 'id', 'sig')


_defs = {}


def defn(e):
    """definition of a grammar element node, or None when its data element is undefined (C16's domain)"""
    k = id(e)
    if k in _defs:
        return _defs[k]
    rec = G.dataele().get(e.de)
    d = None
    if rec is not None:
        d = Def()
        d.usage = e.usage; d.de = e.de
        d.t, d.mn, d.mx = rec
        d.codes = frozenset(e.codes); d.ext = e.ext; d.regex = e.regex
        d.sub = e.parent.kind == 'comp'
        d.first = d.sub and e.seq == 1
        d.pusage = e.parent.usage if d.sub else None
        d.id = e.id
        d.sig = (d.usage, d.de, d.t, d.mn, d.mx, tuple(e.codes), d.ext, d.regex, d.sub, d.first, d.pusage)
    _defs[k] = d
    return d


def map_icvn(gm):
    for s in G.segments(gm):
        if s.path == '/ISA_LOOP/ISA':
            if len(s.children) > 11 and s.children[11].kind == 'ele' and s.children[11].codes:
                return s.children[11].codes[0]
            return None
    return None


def map_exts(gm):
    out = set()
    for s in G.segments(gm):
        for c in s.children:
            for e in ([c] if c.kind == 'ele' else c.children):
                if e.ext:
                    out.add(e.ext)
    return sorted(out)


def variants(gm, thorough):
    """exclusion settings explored for a map: none, each single external set, all of them"""
    ex = map_exts(gm)
    if not ex:
        return [None, 'states']          # a map naming no external set: excluding one must change nothing
    out = [None]
    out += ex
    if len(ex) > 1:
        out.append(','.join(ex))
    return out


# ---------------------------------------------------------------------------------------------------
# the definition evaluator
# ---------------------------------------------------------------------------------------------------
def violations(d, v, cs, icvn, excluded, qual):
    """codes implied by a NON-EMPTY value, leaving usage aside -> (must, may) or None (open)"""
    must = set(); may = set()
    numeric = d.t == 'R' or d.t[:1] == 'N'
    if numeric:
        if v.count('.') > 1 or '-' in v[1:] or '+' in v:
            return None                      # which characters are "the sign / the point" is not determined
        n = len(v) - v.count('.') - (1 if v[0] == '-' else 0)
    else:
        n = len(v)
    if n < d.mn:
        must.add('4')
    if n > d.mx:
        must.add('5')
    cc = [c for c in v if c in CTRL_ALL]
    if cc and any(c not in CTRL_X12 for c in cc):
        return None
    if d.t in ('AN', 'ID') and v.endswith(' ') and len(v.rstrip(' ')) >= d.mn:
        must.add('6')
    if d.ext is not None and not excluded and d.ext not in G.extcodes():
        return None                          # dangling code-set reference: C16's domain
    if d.codes or d.ext is not None:
        ok = v in d.codes
        if not ok and d.ext is not None:
            if excluded:
                ok = True
            else:
                ok = v in extset(d.ext)
        if not ok:
            must.add('7')
    r = c13.ref(v, d.t, cs, icvn)
    if r is False:
        must.add('8' if d.t in ('DT', 'D8', 'D6', 'RD8') else ('9' if d.t == 'TM' else '6'))
    if qual == 'open':
        may |= {'8', '9'}
    elif qual is not None:
        if c13.ref(v, qual, cs, icvn) is False:
            must.add('9' if qual == 'TM' else '8')
    if d.regex:
        if not re.search(d.regex, v):
            must.add('7')
        elif not re.fullmatch(d.regex, v):
            may.add('7')
    if cc:
        if must - {'6'} or may:
            # control character with another violation: '6' is certain, and so are the length codes (the statement lists
            # length and control character as separate members of "exactly the set implied by the definition"; whether
            # the later checks -- code list, data type, pattern, trailing blanks -- still speak is left open)
            return {'6'} | (must & {'4', '5'}), set(ALLCODES)
        return {'6'}, set()
    return must, may


_extsets = {}


def extset(name):
    if name not in _extsets:
        _extsets[name] = frozenset(G.extcodes()[name])
    return _extsets[name]


def expect_ele(d, v, cs, icvn, excluded, qual=None):
    """-> (mode, must, may); mode in exact / any1 / some / open"""
    if v is None or v == '':
        if d.usage == 'R':
            return ('exact', frozenset({'1'}), E0)
        if d.usage in ('S', 'N'):
            return ('exact', E0, E0)
        return ('open', E0, E0)
    if d.usage not in ('R', 'S', 'N'):
        return ('open', E0, E0)
    r = violations(d, v, cs, icvn, excluded, qual)
    if d.usage == 'N':
        if r is not None and not r[0] and not r[1]:
            return ('any1', E0, E0)
        return ('some', E0, E0)
    if r is None:
        return ('open', E0, E0)
    return ('exact', frozenset(r[0]), frozenset(r[1]))


def agrees(exp, got):
    mode, must, may = exp
    if mode == 'open':
        return True
    if mode == 'any1':
        return len(got) == 1
    if mode == 'some':
        return len(got) >= 1
    return must <= got and got <= (must | may)


def show(exp):
    mode, must, may = exp
    if mode == 'exact':
        return '{%s}' % ','.join(sorted(must, key=int)) + (('+may{%s}' % ','.join(sorted(may, key=int))) if may and len(may) < 6 else ('+any' if may else ''))
    return {'any1': '<exactly one code>', 'some': '<at least one code>', 'open': '<open>'}[mode]


def differ(exp, got):
    """coarse description of a disagreement, for finding keys"""
    mode, must, may = exp
    if mode != 'exact':
        return 'expected %s got %s' % (show(exp), showset(got))
    miss = must - got
    extra = got - must - may
    return ' '.join(x for x in ('missing ' + showset(miss) if miss else '', 'unexpected ' + showset(extra) if extra else '') if x)


def family(label):
    p = label.split('|')
    f = p[0].split(':')[0] if not p[0].startswith('sub:') else 'sub:' + p[0].split(':')[1]
    if f == 'q':
        f = 'period ' + (p[1] if len(p) > 1 else '')
    return f.strip()


def showset(s):
    return '{%s}' % ','.join(sorted(s, key=lambda x: (len(x), x)))


# ---------------------------------------------------------------------------------------------------
# value catalogues
# ---------------------------------------------------------------------------------------------------
def near_miss(code, taken):
    for x in 'ZQX9870KJ':
        c = code[:-1] + x
        if c not in taken:
            return c
    return None


PRINTABLE = [chr(c) for c in range(0x20, 0x7f)]


def sweep(d):
    """thorough only: every printable ASCII character and every X12 control character, in first position"""
    numeric = d.t == 'R' or d.t[:1] == 'N'
    if d.t in ('DT', 'TM'):
        return []
    L = min(max(d.mn, 2), d.mx)
    pad = ('1' if numeric else 'A') * (L - 1)
    out = [('sweep:printable', c + pad) for c in PRINTABLE]
    out += [('sweep:control', c + pad) for c in sorted(CTRL_X12)]
    out += [('sweep:printable-last', pad + c) for c in PRINTABLE if c != ' '] if pad else []
    return out


def catalogue(d, thorough):
    """[(label, value)] from the definition; values unique"""
    out = []
    seen = set()

    def add(label, v):
        if v in seen:
            return
        seen.add(v)
        out.append((label, v))
    add('absent', None)
    add('empty', '')
    t, mn, mx = d.t, d.mn, d.mx
    numeric = t == 'R' or t[:1] == 'N'
    L = min(max(mn, 2), mx)
    if t in ('AN', 'ID', 'B') or not (numeric or t in ('DT', 'TM')):
        for lab, n in (('len:min-1', mn - 1), ('len:min', mn), ('len:max', mx), ('len:max+1', mx + 1)):
            if n >= 1:
                add(lab, 'A' * n)
        for lab, c in (('class:digit', '5'), ('class:upper', 'Q'), ('class:lower', 'q'), ('class:basic-punct', '&'),
                       ('class:basic-punct', '.'), ('class:ext-punct', '%'), ('class:ext-punct', '@'),
                       ('class:ext5-only', '^'), ('class:ext5-only', '`'), ('ctrl:BEL', '\x07'), ('ctrl:HT', '\t'),
                       ('ctrl:SOH', '\x01'), ('class:non-ascii', '\xe9'), ('class:leading-blank', ' ')):
            add(lab, c + 'A' * (L - 1))
        for lab, c in (('class:lower-last', 'q'), ('ctrl:BEL-last', '\x07'), ('class:non-ascii-last', '٣')):
            add(lab, 'A' * (L - 1) + c)
        if L >= 3:
            add('class:inner-blank', 'A' + ' ' + 'A' * (L - 2))
        add('trail:above-min', 'A' * mn + ' ')
        add('trail:two-above-min', 'A' * mn + '  ')
        if mn >= 2:
            add('trail:below-min', 'A' * (mn - 1) + ' ')
        add('trail:only-blanks', ' ' * max(mn, 1))
        if mn >= 2:
            # blanks at both ends: the leading one is data (it counts towards the minimum), the trailing one is needless
            add('trail:leading-and-trailing-at-min', ' ' + 'A' * (mn - 1) + ' ')
        add('trail:leading-and-trailing-above-min', ' ' + 'A' * mn + ' ')
        if mx > mn + 1:
            add('trail:at-max', 'A' * (mx - 1) + ' ')
    elif numeric:
        for lab, n in (('len:min-1', mn - 1), ('len:min', mn), ('len:max', mx), ('len:max+1', mx + 1)):
            if n >= 1:
                add(lab, '1' * n)
        add('num:neg-max', '-' + '1' * mx)
        add('num:neg-max+1', '-' + '1' * (mx + 1))
        if mn >= 2:
            add('num:neg-min-1', '-' + '1' * (mn - 1))
        add('num:minus-only', '-')
        add('num:zeros', '0' * max(mn, 1))
        if mx >= 2:
            add('num:point-max', '1' * (mx - 1) + '.1')
        add('num:point-max+1', '1' * mx + '.1')
        add('num:leading-point', '.' + '5' * max(mn, 1))
        add('num:trailing-point', '5' * max(mn, 1) + '.')
        add('num:neg-leading-point', '-.' + '5' * max(mn, 1))
        add('num:point-only', '.')
        add('num:neg-decimal', '-' + '1' * max(mn - 1, 1) + '.5')
        for lab, c in (('class:upper', 'A'), ('class:lower', 'q'), ('class:basic-punct', '&'), ('class:ext-punct', '%'),
                       ('class:ext5-only', '^'), ('class:leading-blank', ' '), ('ctrl:BEL', '\x07'), ('ctrl:HT', '\t'),
                       ('ctrl:SOH', '\x01'), ('class:non-ascii', '\xe9'), ('class:non-ascii-digit', '١')):
            add(lab, c + '1' * (L - 1))
        add('class:trailing-blank', '1' * max(mn, 1) + ' ')
        add('class:lower-last', '1' * (L - 1) + 'q')
    elif t == 'DT':
        for lab, v in (('date:good8', '20040229'), ('date:bad-day', '20040230'), ('date:bad-month', '20041301'),
                       ('date:before-1800', '17991231'), ('date:first', '18000101'), ('date:good6', '040229'), ('date:bad6', '030229'),
                       ('date:len7', '2004022'), ('date:len9', '200402290'), ('date:good12', '200402291200'),
                       ('date:bad12', '200402292400'), ('date:alpha', '2004022A'), ('date:non-ascii-digit', '2004022٣'),
                       ('date:trailing-blank', '2004022 '), ('date:range', '20040101-20040102'), ('ctrl:BEL', '\x072004022'),
                       ('ctrl:HT', '2004\t229'), ('date:len1', '2'),
                       # each field at zero and one past its maximum, each on its own
                       ('date:day-00', '20040100'), ('date:month-00', '20040001'), ('date:day-32', '20040132'), ('date:day-31-in-30', '20040431'),
                       ('date:day6-00', '040100'), ('date:month6-00', '040001'), ('date:min12-60', '200401011260'), ('date:hour12-24', '200401012400')):
            add(lab, v)
    elif t == 'TM':
        for lab, v in (('time:good4', '1200'), ('time:last-minute', '2359'), ('time:bad-hour', '2400'), ('time:bad-minute', '1260'),
                       ('time:len5', '12000'), ('time:good6', '120059'), ('time:bad-second', '120060'), ('time:good7', '1200001'),
                       ('time:good8', '12000012'), ('time:len9', '120000123'), ('time:len3', '120'), ('time:alpha', '12A0'),
                       ('time:trailing-blank', '1200 '), ('time:non-ascii-digit', '120٠'), ('ctrl:BEL', '\x07120'),
                       ('ctrl:SOH', '12\x0100')):
            add(lab, v)
    taken = set(d.codes)
    if d.ext is not None and d.ext in G.extcodes():
        taken |= extset(d.ext)
    codes = sorted(d.codes)
    for c in codes:
        if c:
            add('code:member', c)
    if codes and codes[0]:
        c0 = codes[0]
        add('code:near-miss', near_miss(c0, taken))
        if c0.lower() != c0 and c0.lower() not in taken:
            add('code:lower-case', c0.lower())
        add('code:trailing-blank', c0 + ' ')
        if len(c0) > 1 and c0[:-1] not in taken:
            add('code:prefix', c0[:-1])
        if (c0 + c0[-1]) not in taken:
            add('code:extended', c0 + c0[-1])
    if d.ext is not None and d.ext in G.extcodes():
        mem = [m for m in G.extcodes()[d.ext] if m]
        if not thorough and len(mem) > 5:
            mem = [mem[0], mem[1], mem[len(mem) // 2], mem[-2], mem[-1]]
        for m in mem:
            add('ext:member', m)
        if mem:
            add('ext:non-member', near_miss(mem[0], taken))
            if mem[0].lower() != mem[0] and mem[0].lower() not in taken:
                add('ext:lower-case', mem[0].lower())
            add('ext:member-trailing-blank', mem[0] + ' ')
    if d.regex:
        add('regex:hit', '123456789')
        add('regex:miss', 'ABCDEFGHI')
        add('regex:miss-short', '12345678')
        add('regex:partial', '1234567890')
        out.append(('regex:readings', '123456789'))
    return [(l, v) for l, v in out if not (v is None and l != 'absent')]


def short_catalogue(d):
    """reduced list used when a sub-element is varied inside its composite"""
    out = [('absent', '')]
    numeric = d.t == 'R' or d.t[:1] == 'N'
    ch = '1' if numeric else 'A'
    if d.t == 'DT':
        out += [('date:bad-day', '20040230'), ('date:len9', '200402290')]
    elif d.t == 'TM':
        out += [('time:bad-hour', '2400'), ('time:len3', '120')]
    else:
        out += [('len:max+1', ch * (d.mx + 1)), ('class:lower', 'q' * max(d.mn, 1)), ('ctrl:BEL', '\x07' + ch * max(d.mn - 1, 0))]
        if d.mn >= 2:
            out.append(('len:min-1', ch * (d.mn - 1)))
        if not numeric:
            out.append(('trail:above-min', ch * d.mn + ' '))
    if d.codes:
        c0 = sorted(d.codes)[0]
        taken = set(d.codes)
        out.append(('code:near-miss', near_miss(c0, taken)))
        out.append(('code:last', sorted(d.codes)[-1]))
    if d.ext is not None and d.ext in G.extcodes():
        mem = G.extcodes()[d.ext]
        out.append(('ext:non-member', near_miss(mem[0], set(mem) | set(d.codes))))
        out.append(('ext:member', mem[-1]))
    return [(l, v) for l, v in out if v is not None]


def good_value(e, qual=None):
    """a value meant to satisfy the element's definition (the oracle never relies on that)"""
    d = defn(e)
    if d is None or d.usage == 'N':
        return ''
    if d.de == '1251' and qual in DT_BY_QUAL:
        return DT_BY_QUAL[qual]
    if d.codes:
        fit = [c for c in sorted(d.codes) if d.mn <= len(c) <= d.mx]
        c = (fit or sorted(d.codes))[0]
        if d.de == '1250':
            pref = [x for x in fit if x in DT_BY_QUAL]
            if pref:
                c = pref[0]
        return c
    if d.ext is not None and d.ext in G.extcodes():
        fit = [c for c in G.extcodes()[d.ext] if d.mn <= len(c) <= d.mx]
        if fit:
            return fit[0]
    if d.regex:
        return '123456789'
    try:
        from mc import gen
        return gen.type_value(d.de)
    except Exception:
        return 'A' * max(d.mn, 1)


def good_comp(gc):
    vals = []
    q = None
    for e in gc.children:
        v = good_value(e, q)
        if e.de == '1250' and v in FORMATS:
            q = v
        vals.append(v)
    return vals


def trim(vals):
    vals = list(vals)
    while len(vals) > 1 and vals[-1] == '':
        vals.pop()
    return vals


def comp_cases(gc):
    """[(label, vals | None)] for one composite node"""
    kids = gc.children
    good = good_comp(gc)
    out = [('comp:absent', None), ('comp:empty', ['']), ('comp:all-good', trim(good)), ('comp:all-good-padded', list(good))]
    if kids:
        if good[0]:
            out.append(('comp:first-only', [good[0]]))
        else:
            out.append(('comp:first-only-forced', ['A']))
        for k in range(1, len(kids)):
            if good[k]:
                out.append(('comp:first-empty-later-present', [''] * k + [good[k]]))
                break
        else:
            if len(kids) > 1:
                out.append(('comp:first-empty-later-forced', ['', 'A']))
        if gc.usage == 'N':
            out.append(('comp:not-used-present', ['A']))
            out.append(('comp:not-used-present-later', ['', 'A']))
    out.append(('comp:too-many', list(good) + ['X']))
    out.append(('comp:too-many-2', list(good) + ['', 'X']))
    for i, e in enumerate(kids):
        d = defn(e)
        if d is None:
            continue
        if d.usage == 'N':
            vals = list(good); vals[i] = 'A'
            out.append(('sub:not-used-present', trim(vals)))
            continue
        for lab, v in short_catalogue(d):
            vals = list(good); vals[i] = v
            out.append(('sub:' + lab, trim(vals)))
    for p, i in qual_pairs(kids):
        qs = sorted(set(kids[p].codes)) + ['XX', '']
        for qv in qs:
            for lab, dv in DATEVALS:
                vals = list(good); vals[p] = qv; vals[i] = dv
                out.append(('%s|under:%s' % (lab, qv if qv in FORMATS else ('unlisted' if qv else 'none')), trim(vals)))
    # unique by value
    seen = set(); res = []
    for lab, vals in out:
        k = None if vals is None else tuple(vals)
        if k in seen:
            continue
        seen.add(k)
        res.append((lab, vals))
    return res


def qual_pairs(kids):
    """(index of the nearest preceding 1250 child, index of the 1251 child)"""
    out = []
    p = None
    for i, e in enumerate(kids):
        if e.kind != 'ele':
            continue
        if e.de == '1250':
            p = i
        elif e.de == '1251' and p is not None:
            out.append((p, i))
    return out


def resolve_qual(qnode, qv):
    """the format a qualifier value chooses, 'open' when the map does not say"""
    if qv in FORMATS and qv in qnode.codes:
        return qv
    return 'open'


def expect_comp(gc, vals, cs, icvn, exlist):
    """-> dict group -> expectation; groups: 'own', child ids; or {'*': exp} for the whole"""
    kids = gc.children
    empty = vals is None or all(x == '' for x in vals)
    if gc.usage not in ('R', 'S', 'N'):
        return None
    if empty:
        if gc.usage == 'R':
            return {'own': ('exact', frozenset({'2'}), E0), '~kids': ('exact', E0, frozenset({'1'}))}
        return {'*': ('exact', E0, E0)}
    if gc.usage == 'N':
        return {'own': ('any1', E0, E0), '~kids': ('open', E0, E0)}
    out = {}
    if len(vals) > len(kids):
        if any(x != '' for x in vals[len(kids):]):
            out['own'] = ('exact', frozenset({'3'}), E0)
        else:
            out['own'] = ('exact', E0, frozenset({'3'}))
    else:
        out['own'] = ('exact', E0, E0)
    q = None
    for i, e in enumerate(kids):
        d = defn(e)
        if d is None:
            return None
        v = vals[i] if i < len(vals) else None
        qual = None
        if e.de == '1250':
            q = (e, v)
        elif e.de == '1251' and q is not None:
            qual = resolve_qual(q[0], q[1])
        out[e.id] = expect_ele(d, v, cs, icvn, d.ext is not None and d.ext in exlist, qual)
    return out


# ---------------------------------------------------------------------------------------------------
# running one case on the real nodes
# ---------------------------------------------------------------------------------------------------
def excl_list(ex):
    return ex.split(',') if ex else []


def is_c16(e):
    return type(e).__name__ == 'EngineError' and 'is not defined' in str(e)


def vclass(d):
    return d.t


def mkelem(v, form):
    """'E': segment.Element (what a composite hands to its sub-elements, and what the test-suite uses);
    'C': one-component segment.Composite (what a parsed Segment holds at a simple-element position)"""
    import pyx12.segment
    if v is None:
        return None
    if form == 'C':
        sep = [c for c in (':', '>', '|', '\x1e') if c not in v][0]
        return pyx12.segment.Composite(v, sep)
    return pyx12.segment.Element(v)


def real_tree(node, call, reported, what, desc):
    """the same call against the REAL error handler (open ISA/GS/ST, the node's segment added): every element error the
    recording handler saw must be found under the segment in the error tree, code for code"""
    import collections
    import pyx12.error_handler, pyx12.segment
    from mc import c14, ref
    segn = node
    while segn is not None and not segn.is_segment():
        segn = segn.parent
    if segn is None:
        return []
    src = c14.FakeSrc()
    errh = pyx12.error_handler.err_handler()
    errh.add_isa_loop(pyx12.segment.Segment(ref.isa(), '~', '*', ':'), src)
    errh.add_gs_loop(pyx12.segment.Segment('GS*HC*S*R*20040102*1200*1*X*004010X098A1~', '~', '*', ':'), src)
    errh.add_st_loop(pyx12.segment.Segment('ST*837*0001~', '~', '*', ':'), src)
    errh.add_ele(segn.get_child_node_by_idx(0))
    errh.add_seg(segn, pyx12.segment.Segment(segn.id + '*X~', '~', '*', ':'), 2, 2, None)
    try:
        call(errh)
    except Exception as e:
        return [('C15|%s|real handler|raises %s@%s' % (what, type(e).__name__, core.where(e)), desc + ': against the real error handler raised %r' % (e,))]
    got = collections.Counter()
    for sn in errh.cur_st_node.children:
        for en in sn.elements:
            for e in en.errors:
                got[e[0]] += 1
    want = collections.Counter(c for (c, m, bv, r) in reported)
    if got != want:
        return [('C15|%s|real handler|%s' % (what, 'errors lost' if (want - got) else 'errors added'),
                 desc + ': validation reported %r, the error tree under the segment holds %r' % (dict(want), dict(got)))]
    return []


def run_ele(node, ge, v, cs, icvn, ex, q, label, form='E'):
    """level E; returns (outcome label, [(key, msg)])"""
    from mc import impl
    d = defn(ge)
    if label == 'regex:readings':
        # "matching the declared pattern" can be read as 'contains a match' or as 'is a match'; whichever reading the
        # code takes, it must take it for a match preceded by, followed by, and surrounded by other characters alike
        outs = []
        for w in ('A' + v, v + 'A', 'A' + v + 'A'):
            eh = impl.errh_list()
            try:
                node.is_valid(mkelem(w, form), eh)
            except Exception as e:
                if is_c16(e):
                    return 'SKIP', []
                return 'raise', [('C15|element|raises %s@%s' % (type(e).__name__, core.where(e)), 'element %s.is_valid(%r) raised %r' % (d.id, w, e))]
            outs.append('7' in set(c for (c, m, bv, r) in eh.err_ele))
        if len(set(outs)) != 1:
            return 'regex:readings|mixed', [('C15|element|regex|pattern read neither as "contains" nor as "is"',
                                             'element %s regex %s: code 7 for %r: %r, for %r: %r, for %r: %r' % (d.id, d.regex, 'A' + v, outs[0], v + 'A', outs[1], 'A' + v + 'A', outs[2]))]
        return 'regex:readings|%s' % ('is' if outs[0] else 'contains'), []
    exp = expect_ele(d, v, cs, icvn, d.ext is not None and d.ext in excl_list(ex), q)
    errh = impl.errh_list()
    elem = mkelem(v, form)
    what = 'sub-element' if d.sub else 'element'
    try:
        res = node.is_valid(elem, errh, [q]) if q else node.is_valid(elem, errh)
    except Exception as e:
        if is_c16(e):
            return 'SKIP', []
        return 'raise', [('C15|%s|raises %s@%s' % (what, type(e).__name__, core.where(e)),
                          '%s %s.is_valid(%r) raised %r' % (what, d.id, v, e))]
    got = set(c for (c, m, bv, r) in errh.err_ele)
    out = []
    desc = '%s %s (usage %s, data element %s = %s %d..%d, %d codes, external %s, regex %s) value %r charset %s exclude %s%s' % (
        what, d.id, d.usage, d.de, d.t, d.mn, d.mx, len(d.codes), d.ext, d.regex, v, cs, ex, (' qualifier %s' % q) if q else '')
    if not agrees(exp, got):
        if label in ('absent', 'empty') and d.first and d.usage == 'R' and d.pusage != 'R' and not got:
            key = 'C15|sub-element|required first component of a non-required composite is empty: no error'
        else:
            key = 'C15|%s|%s%s|%s' % (what, family(label), (' under:' + q) if q else '', differ(exp, got))
        out.append((key, desc + ': expected %s, reported %s' % (show(exp), showset(got))))
    if bool(res) != (not errh.err_ele) or res is None:
        out.append(('C15|%s|result %r with %s' % (what, res, 'errors' if errh.err_ele else 'no error'), desc + ': result %r, errors %s' % (res, showset(got))))
    if len(errh.err_ele) >= 2 and not out:
        out += real_tree(node, (lambda h: node.is_valid(mkelem(v, form), h, [q]) if q else node.is_valid(mkelem(v, form), h)), errh.err_ele, what, desc)
    return '%s|%s' % (label, show(exp)), out


def mkcomp(vals):
    import pyx12.segment
    return None if vals is None else pyx12.segment.Composite(':'.join(vals), ':')


def group_errors(err_ele, kid_ids):
    by = collections.defaultdict(set)
    for (c, m, bv, r) in err_ele:
        by[r if r in kid_ids else 'own'].add(c)
    return by


def compare_groups(exp, by, kid_ids, what, label, desc, first_exempt=None):
    out = []
    allgot = set()
    for s in by.values():
        allgot |= s
    if '*' in exp:
        if not agrees(exp['*'], allgot):
            out.append(('C15|%s|%s|whole|%s' % (what, family(label), differ(exp['*'], allgot)),
                        desc + ': expected %s in total, reported %s' % (show(exp['*']), dict((k, sorted(v)) for k, v in by.items()))))
        return out
    for g, e in exp.items():
        if g == '~kids':
            got = set()
            for k in kid_ids:
                got |= by.get(k, set())
            gname = 'components'
        else:
            got = by.get(g, set())
            gname = 'own' if g == 'own' else 'component'
        if not agrees(e, got):
            if g == first_exempt and e[0] == 'exact' and e[1] == {'1'} and not got:
                key = 'C15|sub-element|required first component of a non-required composite is empty: no error'
            else:
                key = 'C15|%s|%s|%s|%s' % (what, family(label), gname, differ(e, got))
            out.append((key, desc + ': for %s expected %s, reported %s (all: %s)' % (g, show(e), showset(got), dict((k, sorted(v)) for k, v in by.items()))))
    return out


def run_comp(node, gc, vals, cs, icvn, ex, label):
    from mc import impl
    exp = expect_comp(gc, vals, cs, icvn, excl_list(ex))
    if exp is None:
        return 'SKIP', []
    kid_ids = [e.id for e in gc.children]
    errh = impl.errh_list()
    desc = 'composite %s of %s (usage %s, %d components) value %r charset %s exclude %s' % (
        gc.refdes or gc.seq, gc.parent.path, gc.usage, len(kid_ids), vals, cs, ex)
    try:
        res = node.is_valid(mkcomp(vals), errh)
    except Exception as e:
        if is_c16(e):
            return 'SKIP', []
        return 'raise', [('C15|composite|raises %s@%s' % (type(e).__name__, core.where(e)), desc + ' raised %r' % (e,))]
    by = group_errors(errh.err_ele, set(kid_ids))
    out = compare_groups(exp, by, kid_ids, 'composite', label, desc, kid_ids[0] if kid_ids and gc.usage != 'R' else None)
    if bool(res) != (not errh.err_ele) or res is None:
        out.append(('C15|composite|result %r with %s' % (res, 'errors' if errh.err_ele else 'no error'), desc + ': result %r, errors %r' % (res, [(c, r) for (c, m, v, r) in errh.err_ele])))
    if len(errh.err_ele) >= 2 and not out:
        out += real_tree(node, lambda h: node.is_valid(mkcomp(vals), h), errh.err_ele, 'composite', desc)
    own = exp.get('own') or exp.get('*')
    return '%s|own=%s' % (label.split('|')[0], show(own)), out


def seg_cases(gs):
    """level S cases of one segment node: [(label, target index, parts)]"""
    out = []
    ch = gs.children
    for p, k in qual_pairs(ch):
        if defn(ch[k]) is None or ch[k].usage == 'N':
            continue
        qs = sorted(set(ch[p].codes)) + ['XX', '']
        for qv in qs:
            for lab, dv in DATEVALS:
                parts = [gs.id] + [''] * (k + 1)
                parts[p + 1] = qv
                parts[k + 1] = dv
                out.append(('%s|under:%s' % (lab, qv if qv in FORMATS else ('unlisted' if qv else 'none')), k, parts))
    for k, c in enumerate(ch):
        if c.kind != 'comp' or any(defn(e) is None for e in c.children):
            continue
        good = good_comp(c)
        base = [gs.id] + [''] * k
        cases = [('seg:comp-all-good', trim(good)), ('seg:comp-too-many', list(good) + ['X'])]
        if c.usage == 'N':
            cases.append(('seg:comp-not-used-too-many', ['A'] * (len(c.children) + 1)))
        for p, i in qual_pairs(c.children):
            for qv in sorted(set(c.children[p].codes)):
                for lab, dv in DATEVALS[:4] + DATEVALS[10:12]:
                    vals = list(good); vals[p] = qv; vals[i] = dv
                    cases.append(('%s|under:%s' % (lab, qv), trim(vals)))
        for lab, vals in cases:
            out.append((lab, k, base + [vals]))
    return out


def run_seg(node, gs, k, parts, cs, icvn, ex, label):
    """level S: only the errors attributed to the target child (and the result flag) are judged"""
    from mc import impl
    tgt = gs.children[k]
    flat = [':'.join(x) if isinstance(x, list) else x for x in parts]
    desc = 'segment %s %r (target position %02d) charset %s exclude %s' % (gs.path, '*'.join(flat), k + 1, cs, ex)
    errh = impl.errh_list()
    try:
        res = node.is_valid(impl.mkseg(flat), errh)
    except Exception as e:
        if is_c16(e):
            return 'SKIP', []
        return 'raise', [('C15|segment|%s|raises %s@%s' % (label.split('|')[0], type(e).__name__, core.where(e)), desc + ' raised %r' % (e,))]
    out = []
    lab0 = label.split('|')[0]
    if tgt.kind == 'ele':
        d = defn(tgt)
        p = [pp for pp, kk in qual_pairs(gs.children) if kk == k][0]
        qual = resolve_qual(gs.children[p], parts[p + 1])
        exp = expect_ele(d, parts[k + 1], cs, icvn, d.ext is not None and d.ext in excl_list(ex), qual)
        got = set(c for (c, m, v, r) in errh.err_ele if r == tgt.id)
        if not agrees(exp, got):
            out.append(('C15|segment|%s|%s' % (family(label), differ(exp, got)),
                        desc + ': for %s expected %s, reported %s' % (tgt.id, show(exp), showset(got))))
        oc = '%s|%s' % (label, show(exp))
    else:
        vals = parts[k + 1]
        exp = expect_comp(tgt, vals, cs, icvn, excl_list(ex))
        if exp is None:
            return 'SKIP', []
        kid_ids = [e.id for e in tgt.children]
        by = group_errors([x for x in errh.err_ele if x[3] in kid_ids], set(kid_ids))
        exp2 = dict((g, e) for g, e in exp.items() if g in kid_ids)
        out += compare_groups(exp2, by, kid_ids, 'segment', label, desc, kid_ids[0] if kid_ids and tgt.usage != 'R' else None)
        allc = set(c for (c, m, v, r) in errh.err_ele)
        if 'too-many' in lab0 and tgt.usage != 'N' and '3' not in allc:
            out.append(('C15|segment|%s|no code 3' % lab0, desc + ': too many components, but no code 3 among %s' % showset(allc)))
        if tgt.usage == 'N' and not allc:
            out.append(('C15|segment|%s|not-used composite present: no error' % lab0, desc))
        oc = '%s|%s' % (label, tgt.usage)
    if bool(res) != (not errh.err_ele) or res is None:
        out.append(('C15|segment|result %r with %s' % (res, 'errors' if errh.err_ele else 'no error'), desc + ': result %r' % (res,)))
    return oc, out


# ---------------------------------------------------------------------------------------------------
# addressing, evaluate
# ---------------------------------------------------------------------------------------------------
def pair(fname, cs, ex):
    """(real segment nodes, grammar segment nodes, icvn) index-aligned; None if the map does not load"""
    from mc import impl
    m = impl.load_map(fname, cs, ex)
    gm = G.load(fname)
    rs = impl.seg_nodes(m)
    gs = G.segments(gm)
    if len(rs) != len(gs) or any(a.id != b.id or len(a.children) != len(b.children) for a, b in zip(rs, gs)):
        raise RuntimeError('segment lists of the two readings of %s differ' % fname)
    return rs, gs, map_icvn(gm), m


def locate(rs, gs, o, k, j):
    rn, gn = rs[o].children[k], gs[o].children[k]
    if j is not None:
        rn, gn = rn.children[j], gn.children[j]
    return rn, gn


def evaluate(case):
    rs, gs, icvn, m = pair(case['map'], case['cs'], case['ex'])
    lvl = case['lvl']
    if lvl == 'E':
        rn, gn = locate(rs, gs, case['o'], case['k'], case['j'])
        return run_ele(rn, gn, case['v'], case['cs'], icvn, case['ex'], case.get('q'), case['label'], case.get('form', 'E'))[1]
    if lvl == 'C':
        rn, gn = locate(rs, gs, case['o'], case['k'], None)
        return run_comp(rn, gn, case['v'], case['cs'], icvn, case['ex'], case['label'])[1]
    if lvl == 'S':
        return run_seg(rs[case['o']], gs[case['o']], case['k'], case['parts'], case['cs'], icvn, case['ex'], case['label'])[1]
    raise ValueError(lvl)


# ---------------------------------------------------------------------------------------------------
# enumeration
# ---------------------------------------------------------------------------------------------------
def outcome_label(oc):
    """distinct-outcome rule: (value class, expected code set); not-used nodes collapse to (family, mode)"""
    parts = oc.split('|')
    lab, exp = parts[0], parts[-1]
    if exp.startswith('<'):
        return 'not-used|%s|%s' % (lab.split(':')[0], exp)
    return '%s|%s' % (lab, exp)


def work(shard):
    from mc import impl
    fname, cs, ex, thorough, addrs = shard
    P = core.Part()
    try:
        rs, gs, icvn, m = pair(fname, cs, ex)
    except RuntimeError as e:
        P.bad('C15|harness|%s' % fname, {'map': fname}, str(e))
        return P
    except Exception as e:
        P.counters['maps_that_do_not_load(C16)'] += 1
        return P
    if (m.icvn or None) != icvn:
        P.counters['icvn_read_differently'] += 1
    exl = excl_list(ex)
    base = {'map': fname, 'cs': cs, 'ex': ex}
    cat_cache = {}
    import zlib
    pick = 1 + zlib.crc32(repr((fname, cs, ex, addrs[0])).encode()) % 997

    def record(case, oc, res):
        P.n += 1
        P.transitions += 1
        if oc == 'SKIP':
            P.counters['skipped: dangling data element / code set (C16 domain)'] += 1
            return
        P.out(outcome_label(oc))
        if '<open>' in oc:
            P.counters['open: expected set not determined by the statement (only no-exception and the result flag judged)'] += 1
        elif '+any' in oc:
            P.counters['partly open: control character together with another violation (codes 6 and 4/5 demanded, rest free)'] += 1
        elif '+may' in oc:
            P.counters['partly open: qualifier not listed / partial regex match (codes 8,9 / 7 free)'] += 1
        elif '<at least' in oc:
            P.counters['partly open: not-used node with a malformed value (at least one code demanded)'] += 1
        elif '<exactly' in oc:
            P.counters['not-used node with a well-formed value (exactly one code demanded, which one is free)'] += 1
        for key, msg in res:
            c = dict(base); c.update(case)
            P.bad(key, c, msg)
        if P.n == pick:
            c = dict(base); c.update(case); c['outcome'] = oc
            P.sample(c, cap=1)

    for (lvl, o, k, j) in addrs:
        P.states += 1
        if lvl == 'E':
            rn, gn = locate(rs, gs, o, k, j)
            d = defn(gn)
            if d is None:
                P.counters['nodes skipped: data element undefined (C16 domain)'] += 1
                continue
            if rn.id != gn.id or rn.data_ele != gn.de:
                P.bad('C15|harness|%s' % fname, {'map': fname}, 'element nodes of the two readings differ at %s' % gn.id)
                continue
            if d.sig not in cat_cache:
                cat_cache[d.sig] = catalogue(d, thorough)
            for form in (('E',) if j is not None else ('C', 'E')):
                for label, v in cat_cache[d.sig]:
                    oc, res = run_ele(rn, gn, v, cs, icvn, ex, None, label, form)
                    record({'lvl': 'E', 'o': o, 'k': k, 'j': j, 'v': v, 'label': label, 'form': form}, oc, res)
            if thorough and ex is None:
                if ('sweep', d.sig) not in cat_cache:
                    cat_cache[('sweep', d.sig)] = sweep(d)
                form = 'E' if j is not None else 'C'
                for label, v in cat_cache[('sweep', d.sig)]:
                    oc, res = run_ele(rn, gn, v, cs, icvn, ex, None, label, form)
                    record({'lvl': 'E', 'o': o, 'k': k, 'j': j, 'v': v, 'label': label, 'form': form}, oc, res)
            if d.de == '1251':
                for q in FORMATS:
                    for label, v in DATEVALS:
                        form = 'E' if j is not None else 'C'
                        oc, res = run_ele(rn, gn, v, cs, icvn, ex, q, label, form)
                        record({'lvl': 'E', 'o': o, 'k': k, 'j': j, 'v': v, 'q': q, 'label': label, 'form': form}, oc, res)
        elif lvl == 'C':
            rn, gn = locate(rs, gs, o, k, None)
            ids = [e.id for e in gn.children]
            if len(set(ids)) != len(ids) or [x.id for x in rn.children] != ids:
                P.counters['composites skipped: component ids not unique'] += 1
                continue
            for label, vals in comp_cases(gn):
                oc, res = run_comp(rn, gn, vals, cs, icvn, ex, label)
                record({'lvl': 'C', 'o': o, 'k': k, 'v': vals, 'label': label}, oc, res)
        else:
            for label, kk, parts in seg_cases(gs[o]):
                oc, res = run_seg(rs[o], gs[o], kk, parts, cs, icvn, ex, label)
                record({'lvl': 'S', 'o': o, 'k': kk, 'parts': parts, 'label': label}, oc, res)
    return P


def comp_sig(c):
    return (c.usage, tuple(defn(e).sig if defn(e) else None for e in c.children))


def run(R):
    T = R.thorough
    shards = []
    seen = set()
    tot = collections.Counter()
    unloadable = []
    from mc import impl
    for f in G.map_files():
        try:
            gm = G.load(f)
        except Exception:
            continue
        try:
            impl.load_map(f)
        except Exception:
            unloadable.append(f)
            continue
        icvn = map_icvn(gm)
        exts = map_exts(gm)
        var = variants(gm, T)
        # addresses per variant: nodes without an external set only under 'none' (and 'all' when thorough)
        addrs_ext = collections.defaultdict(list)     # ext name -> addresses of nodes naming it
        addrs_plain = []
        addrs_comp = []
        addrs_comp_ext = []
        addrs_seg = []
        for o, s in enumerate(G.segments(gm)):
            segsig = []
            for k, c in enumerate(s.children):
                if c.kind == 'ele':
                    tot['elements'] += 1
                    d = defn(c)
                    if d is None:
                        tot['undefined'] += 1
                        continue
                    sig = ('E', d.sig, icvn, tuple(exts) if d.ext else None)
                    if not T:
                        if sig in seen:
                            continue
                        seen.add(sig)
                    (addrs_ext[d.ext] if d.ext else addrs_plain).append(('E', o, k, None))
                else:
                    tot['composites'] += 1
                    hasext = False
                    for j, e in enumerate(c.children):
                        tot['sub-elements'] += 1
                        d = defn(e)
                        if d is None:
                            tot['undefined'] += 1
                            continue
                        hasext |= bool(d.ext)
                        sig = ('E', d.sig, icvn, tuple(exts) if d.ext else None)
                        if not T:
                            if sig in seen:
                                continue
                            seen.add(sig)
                        (addrs_ext[d.ext] if d.ext else addrs_plain).append(('E', o, k, j))
                    sig = ('C', comp_sig(c), icvn, tuple(exts) if hasext else None)
                    if not T:
                        if sig in seen:
                            continue
                        seen.add(sig)
                    (addrs_comp_ext if hasext else addrs_comp).append(('C', o, k, None))
            if qual_pairs(s.children) or any(c.kind == 'comp' for c in s.children):
                sig = ('S', s.id == 'DTP', icvn,
                       tuple((c.kind, c.usage, defn(c).sig if c.kind == 'ele' and c.de in ('1250', '1251') and defn(c) else None,
                              comp_sig(c) if c.kind == 'comp' else None) for c in s.children))
                if T or sig not in seen:
                    seen.add(sig)
                    addrs_seg.append(('S', o, None, None))
        alljoined = var[-1]
        for cs in ('B', 'E'):
            for ex in var:
                a = []
                if ex is None or (T and ex == alljoined) or (not T and ex == alljoined and cs == 'E'):
                    a += addrs_plain + addrs_comp
                if ex is None or ex == alljoined:
                    a += addrs_seg
                for name, lst in addrs_ext.items():
                    a += lst
                a += addrs_comp_ext
                for chunk in core.chunks(a, max(1, len(a) // 1500 + 1)):
                    if chunk:
                        shards.append((f, cs, ex, T, chunk))
    shards.sort(key=lambda s: -len(s[4]))
    R.bounds = {'maps': len(G.map_files()) - len(unloadable), 'maps_not_loadable(C16)': unloadable,
                'nodes_in_maps': dict(tot),
                'dedup': 'none: every element, sub-element and composite node of every loadable map' if T else
                         'one node per definition signature (usage, data element, type, lengths, code list, external set, regex, position in composite, parent usage, map version)',
                'node_visits': sum(len(s[4]) for s in shards),
                'charsets': ['B', 'E'], 'exclusions': 'none, each external set named in the map alone, all of them (nodes without an external set: none%s)' % (' and all' if T else '; all under charset E only'),
                'forms': 'simple elements are handed over both as segment.Element and as the one-component segment.Composite a parsed segment holds; sub-elements as segment.Element',
                'sweep': ('every printable ASCII character and each of the 23 X12 control characters in first position (printable also in last), exclusions none' if T else 'thorough tier only'),
                'values': 'per-definition catalogue: absent, empty, lengths min-1/min/max/max+1, 14+ character classes incl. BEL/HT/SOH and non-ASCII, trailing blanks above/below min, every inline code + 5 near misses, %s members of the external set + non-members, 18 dates / 16 times, 17 date-time-period values under each of 5 qualifiers, regex hit/miss/partial' % ('all' if T else '5'),
                'composites': 'absent, empty, all-good, first-only, first-empty-later-present, too many, each component varied over a short catalogue, every listed qualifier x 17 period values',
                'segments': 'every 1251 element under every listed / an unlisted / no qualifier x 17 values; every composite position: all-good, too many components, qualifier pairs'}
    R.assumptions = ['data-type membership is decided by the recognisers of mc/c13.py (written from the C13 statement); the X12 control characters are BEL HT LF VT FF CR FS GS RS US SOH STX ETX EOT ENQ ACK DC1-DC4 NAK SYN ETB, of which BEL, HT, SOH are exercised',
                     'a not-used element / composite carrying a value must yield exactly one code when the value is otherwise well-formed and at least one otherwise; which code is not asserted',
                     'a control character together with another violation: code 6, the length codes 4/5 and a false result are asserted; codes of the later checks (code list, data type, pattern, trailing blanks) are left open',
                     'a date time period whose nearest preceding qualifier is empty or not in the code list of the qualifier node: codes 8/9 neither demanded nor forbidden',
                     'numeric lengths: one leading minus and one point are not counted; values with several signs/points are not in the catalogue',
                     'regex: a value matching only in part (re.search but not re.fullmatch) may or may not carry code 7, but the same way whether the match is preceded, followed or surrounded by other characters',
                     'an element node handed a multi-component value, and charset settings other than B/E, are outside the quantifier',
                     'at segment level only the errors attributed (by reference designator) to the target child are judged, plus the result flag; a required composite that is all empty: its components may or may not report code 1']
    R.pmap(work, shards)
    return R.finish(LEVEL, 'complete product node x catalogue value x charset x exclusion; an outcome is distinct by (value class, expected code set)', exhaustive=True)
