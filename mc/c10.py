"""
C10 - the tree editing API of pyx12.x12context obeys its read / write / insert / delete / copy laws.

E2: breadth-first search over API call histories on loop trees obtained from the real X12ContextReader.
Every execution re-reads the source document, replays the history on the fresh tree in lock-step with a
reference model (plain nested lists whose positions and segment matching come from mc.grammar, the independent
map reader) and compares after the last call: the return value / exception class, the serialisation
(iterate_segments) of the whole tree and of the copy, and - once per distinct state - a battery of
exists/count/first/select/get_value queries over every path derived from the tree.
States are merged on (model tree, model copy, implementation loop/segment event stream).

History = [('init', cfg, width, depth), ev, ev, ...]; events
    ('set', H, P, v)  ('setraw', H, raw, v)  ('adds', H, seg)  ('addl', H, seg)  ('addn', H)
    ('dels', H, seg)  ('deln', H, P)  ('delnraw', H, raw)  ('copy', H)  ('Q',) = query battery
H in R (tree / base node), Rc (first child loop), Rs (anchor segment node), C (copy of R), Cc (first child loop of C),
K (copy of Rc).  P = (ups, loops, seg, qual, ele, sub).

Alphabets are derived from the initial tree and the grammar (templates()): 'wide' = every element path present (with and
without qualifier, whole composite / sub-element / beyond the end / cleared), every direct child for delete_segment, every
node path for delete_node, up to two insertable segments / loops per position class (anchor, earlier, same position, between,
later, duplicate, not a member), '../' forms, absent and malformed paths; 'narrow' / 'small' / 'mini' keep the first template
of each class (SEL).  Finding keys: C10|<method>|raises <T>@<where>  or  C10|<method>@<tree|segnode|copy>|<symptom class>.
"""
import io, gc, multiprocessing, hashlib, traceback
from mc import core, grammar

ID = 'C10'
LEVEL = 'model_checking'
VAL = 'Z9'

# ------------------------------------------------------------------------------------------------------
# documents (nested literal: str = segment, (loop id, [children]) = loop)
ISA = 'ISA*00*          *00*          *ZZ*AAAAAAAA       *ZZ*BBBBBBBBB      *041105*1526*U*00401*000001168*1*P*:'
DOCS = {
    '837p': {
        'map': '837.4010.X098.A1.xml',
        'hdr': [ISA, 'GS*HC*AAAA*BBBBBBBBB*20041105*1526*1167*X*004010X098A1', 'ST*837*1179', 'BHT*0019*00*AAAA1179*20041105*1526*RP',
                'REF*87*004010X098A1', 'NM1*41*2*Sender 1*****46*99999', 'PER*IC*SUPPORT*EM*Support@dev.null*TE*8005553333',
                'NM1*40*2*Receiver 1*****46*8888888', 'HL*1**20*1', 'NM1*85*2*Sender 1*****24*999999999', 'N3*399 ELM ROAD',
                'N4*Kalamazoo*MI*49001'],
        'outer': ('2000B', [
            'HL*2*1*22*0', 'SBR*P*18*******MC',
            ('2010BA', ['NM1*IL*1*THE FIFTH*RICHARD****MI*1212121', 'N3*156 ELM', 'N4*KALAMAZOO*MI*49001', 'DMG*D8*19051104*M']),
            ('2010BB', ['NM1*PR*2*PAYER 1*****PI*8888888']),
            ('2300', [
                'CLM*3215338*21***12::1*Y*A*Y*A*B', 'CN1*05', 'REF*F8*3215338', 'REF*G1*121282', 'HI*BK:317',
                ('2310B', ['NM1*82*2*PROVIDER 1*****24*222185735', 'PRV*PE*ZZ*103T00000X']),
                ('2400', ['LX*1', 'SV1*HC:H2015:TT*21*UN*12***1', 'DTP*472*D8*20040407', 'REF*6R*1057296', 'AMT*AAE*21',
                          ('2430', ['SVD*174456543*21*HC:H2015:TT**12', 'DTP*573*D8*20040929'])]),
                ('2400', ['LX*2', 'SV1*HC:H2015:TT*22*UN*12***1', 'DTP*472*D8*20040414', 'REF*6R*1057297']),
            ]),
        ]),
        'trl': ['SE*%d*1179', 'GE*1*1167', 'IEA*1*000001168'],
    },
    '834': {
        'map': '834.4010.X095.A1.xml',
        'hdr': [ISA, 'GS*BE*AAAA*BBBBBBBBB*20070305*1832*1167*X*004010X095A1', 'ST*834*0001', 'BGN*00*88880070301*20070305*181245****4',
                'N1*P5*PAYER 1*FI*999999999', 'N1*IN*KCMHSAS*FI*999999999'],
        'outer': ('2000', [
            'INS*Y*18*030*XN*A*C**FT', 'REF*0F*00389999', 'REF*1L*000003409999', 'REF*3H*K129999A', 'DTP*356*D8*20070301',
            ('2100A', ['NM1*IL*1*DOE*JOHN*A***34*999999999', 'N3*777 ELM ST', 'N4*ALLEGAN*MI*49010**CY*03', 'DMG*D8*19670330*M']),
            ('2300', ['HD*030**AK*064703*IND', 'DTP*348*D8*20070301', 'AMT*P3*45.34', 'REF*17*E1F']),
            ('2300', ['HD*030**VIS', 'DTP*348*D8*20070401']),
        ]),
        'trl': ['SE*%d*0001', 'GE*1*1167', 'IEA*1*000001168'],
    },
}
CFG = {
    '837p:2300': {'doc': '837p', 'loop': '2300', 'base': (), 'child': '2400'},
    '834:2000': {'doc': '834', 'loop': '2000', 'base': (), 'child': '2300'},
    '837p:2000B/2300': {'doc': '837p', 'loop': '2000B', 'base': ('2300',), 'child': '2400'},
}
HK = {'R': 'tree', 'Rc': 'child', 'Rs': 'segnode', 'C': 'copy', 'Cc': 'copy.child', 'K': 'childcopy'}     # outcome labels
TG = {'R': 'tree', 'Rc': 'tree', 'Rs': 'segnode', 'C': 'copy', 'Cc': 'copy', 'K': 'copy'}                      # finding keys
DIFFERS = 'result differs from model'
DOCERR = 'documented error for a valid call'
NOERR = 'no error for an invalid argument'
COARSE = {
    'unexpected X12PathError': DOCERR, 'unexpected EngineError': DOCERR, 'raises for a valid path': DOCERR,
    'return value': DIFFERS, 'returned node': DIFFERS, 'tree serialisation differs from model': DIFFERS,
    'copy serialisation differs from model': DIFFERS, 'copy differs from its source': DIFFERS, 'read-after-write': DIFFERS,
    'count differs from model': DIFFERS, 'selected node differs from model': DIFFERS, 'get_value differs from model': DIFFERS,
    'get_value without element index': DIFFERS, 'malformed path finds something': DIFFERS, 'first() returned None': DIFFERS,
    'no error for a path above the root': NOERR,
}


def handle_viol(H, st, Hi, where_msg):
    """first() could not produce a node the model has"""
    if st == 'exc':
        ec = eclass(Hi)
        if ec not in ('P', 'E'):
            return ('C10|first|raises %s@%s' % (ec, core.where(Hi)), 'first() for %s raised %r || %s' % (H, Hi, where_msg))
        return ('C10|query@%s|%s' % (TG[H], DOCERR), 'first() for %s raised %r || %s' % (H, Hi, where_msg))
    return ('C10|query@%s|%s' % (TG[H], DIFFERS), 'model has node %s but first() returned None || %s' % (H, where_msg))



def flatten(lit):
    out = []
    for x in lit[1]:
        if isinstance(x, str):
            out.append(x)
        else:
            out.extend(flatten(x))
    return out


def doc_text(doc):
    d = DOCS[doc]
    body = d['hdr'] + flatten(d['outer'])
    n = len(body) - 2 + 1
    segs = body + [d['trl'][0] % n] + d['trl'][1:]
    return '~\n'.join(segs) + '~\n'


def find_lit(lit, loop_id):
    if lit[0] == loop_id:
        return lit
    for x in lit[1]:
        if not isinstance(x, str):
            r = find_lit(x, loop_id)
            if r is not None:
                return r
    return None


# ------------------------------------------------------------------------------------------------------
# reference model
class PathErr(Exception):
    pass


class OpenCase(Exception):
    pass


OPEN = object()


class MN(object):
    __slots__ = ('k', 'id', 'g', 'els', 'ch', 'parent', 'isx')

    def __init__(self, k, id_, g, parent):
        self.k = k; self.id = id_; self.g = g; self.parent = parent; self.els = None; self.ch = []; self.isx = False

    @property
    def pos(self):
        return self.g.pos


def parse_seg(s):
    if s.endswith('~'):
        s = s[:-1]
    parts = s.split('*')
    return parts[0], [p.split(':') for p in parts[1:]]


def canon_els(els):
    out = []
    for c in els:
        c = list(c)
        while len(c) > 1 and c[-1] == '':
            c.pop()
        out.append(tuple(c))
    while out and out[-1] == ('',):
        out.pop()
    return tuple(out)


def fmt_seg(sid, els):
    return sid + ''.join('*' + ':'.join(c) for c in canon_els(els))


def qual(gseg):
    """(code list, where) of the element that tells same-id siblings apart, or (None, None)"""
    e, where = grammar.qual_ele(gseg)
    if e is None:
        return None, None
    if where == '01' and e.usage != 'R':
        return None, None
    return e.codes, where


def val_at(els, where):
    e = int(where[:2]) - 1
    if e >= len(els):
        return None
    if '-' in where:
        k = int(where[3:]) - 1
        return els[e][k] if k < len(els[e]) else None
    return ':'.join(canon_els([els[e]])[0]) if canon_els([els[e]]) else ''


def match_one(g, sid, els):
    if g.kind != 'seg' or g.id != sid:
        return False
    codes, where = qual(g)
    if codes is None:
        return True
    return val_at(els, where) in codes


def match_seg(gloop, sid, els):
    for c in gloop.children:
        if match_one(c, sid, els):
            return c
    return None


def loop_matches(gl, sid, els):
    first = gl.children[0]
    if first.kind == 'loop':
        return loop_matches(first, sid, els)
    return match_one(first, sid, els)


def match_loop(gloop, sid, els):
    for c in gloop.children:
        if c.kind == 'loop' and loop_matches(c, sid, els):
            return c
    return None


def gfind(groot, loop_id):
    for x in grammar.walk(groot):
        if x.kind == 'loop' and x.id == loop_id:
            return x
    return None


def m_build(lit, gl, parent):
    n = MN('loop', lit[0], gl, parent)
    for x in lit[1]:
        if isinstance(x, str):
            sid, els = parse_seg(x)
            g = match_seg(gl, sid, els)
            if g is None:
                raise RuntimeError('document segment %s is not a member of %s in the grammar' % (x, gl.id))
            s = MN('seg', sid, g, n); s.els = els
            n.ch.append(s)
        else:
            cg = [c for c in gl.children if c.kind == 'loop' and c.id == x[0]][0]
            n.ch.append(m_build(x, cg, n))
    return n


def m_copy(n, parent):
    c = MN(n.k, n.id, n.g, parent)
    if n.k == 'seg':
        c.els = [list(x) for x in n.els]
    else:
        c.ch = [m_copy(x, c) for x in n.ch]
    return c


def m_flat(n, out=None):
    if out is None:
        out = []
    if n.k == 'seg':
        out.append((n.parent.id if n.parent not in (None, OPEN) else '?', n.id, canon_els(n.els)))
    else:
        for c in n.ch:
            m_flat(c, out)
    return out


def m_canon(n):
    if n.k == 'seg':
        return (n.id, tuple(tuple(c) for c in n.els))
    return (n.id, n.isx, tuple(m_canon(c) for c in n.ch))


def qv(s):
    codes, where = qual(s.g)
    if codes is None:
        return None
    return val_at(s.els, where)


def seg_matches(s, sid, q):
    if s.k != 'seg' or s.id != sid:
        return False
    if q is None:
        return True
    if qual(s.g)[0] is None:
        raise OpenCase('qualifier on unqualified segment')
    return qv(s) == q


def m_start(n, ups):
    for _ in range(ups):
        if n.parent is None:
            raise PathErr()
        if n.parent is OPEN:
            raise OpenCase('parent of a detached copy')
        n = n.parent
    return n


def m_select(n, loops, sid, q):
    if n.k == 'seg':
        return []
    if not loops:
        return [c for c in n.ch if (c.k == 'seg' and seg_matches(c, sid, q)) or (c.k == 'loop' and q is None and c.id == sid)]
    out = []
    for c in n.ch:
        if c.k == 'loop' and c.id == loops[0]:
            if len(loops) == 1 and sid is None:
                out.append(c)
            else:
                out.extend(m_select(c, loops[1:], sid, q))
    return out


def m_first_chain(n, loops, sid, q):
    """resolution that looks only into the first loop instance at every level"""
    for l in loops:
        cands = [c for c in n.ch if c.k == 'loop' and c.id == l] if n.k == 'loop' else []
        if not cands:
            return None
        n = cands[0]
    if n.k != 'loop':
        return None
    for c in n.ch:
        if c.k == 'seg' and seg_matches(c, sid, q):
            return c
    return None


def m_insert(parent, node):
    idx = 0
    for i, c in enumerate(parent.ch):
        if c.pos <= node.pos:
            idx = i + 1
    parent.ch.insert(idx, node)
    return idx


def m_getval(s, ele, sub):
    if ele > len(s.els):
        return ''
    comp = s.els[ele - 1]
    if sub is None:
        return ':'.join(canon_els([comp])[0]) if canon_els([comp]) else ''
    return comp[sub - 1] if sub <= len(comp) else ''


def m_setval(s, ele, sub, v):
    while len(s.els) < ele:
        s.els.append([''])
    if sub is None:
        s.els[ele - 1] = [v]
    else:
        while len(s.els[ele - 1]) < sub:
            s.els[ele - 1].append('')
        s.els[ele - 1][sub - 1] = v


def fmt_path(P):
    ups, loops, sid, q, ele, sub = P
    last = sid or ''
    if q is not None:
        last += '[%s]' % q
    if ele is not None:
        last += '%02d' % ele
        if sub is not None:
            last += '-%d' % sub
    parts = list(loops) + ([last] if last else [])
    return '../' * ups + '/'.join(parts)


class MS(object):
    """model state"""
    def __init__(self, cfg):
        self.cfg = cfg
        d = DOCS[cfg['doc']]
        groot = grammar.load(d['map'])
        self.T = m_build(find_lit(d['outer'], cfg['loop']), gfind(groot, cfg['loop']), None)
        self.B = self.T
        for l in cfg['base']:
            self.B = [c for c in self.B.ch if c.k == 'loop' and c.id == l][0]
        self.X = None
        self.xkind = None
        self.attached = False

    def handle(self, H):
        B = self.B
        if H == 'R':
            return B
        if H == 'Rc':
            r = [c for c in B.ch if c.k == 'loop' and c.id == self.cfg['child']]
            return r[0] if r else None
        if H == 'Rs':
            aid = INIT[self.cfg['name']]['anchor']
            r = [c for c in B.ch if c.k == 'seg' and c.id == aid]
            return r[0] if r else None
        if H == 'C':
            return self.X if self.xkind == 'C' else None
        if H == 'K':
            return self.X if self.xkind == 'K' else None
        if H == 'Cc':
            if self.xkind != 'C':
                return None
            r = [c for c in self.X.ch if c.k == 'loop' and c.id == self.cfg['child']]
            return r[0] if r else None
        return None

    def canon(self):
        return (m_canon(self.T), self.xkind, self.attached, m_canon(self.X) if self.X is not None and not self.attached else None)


# ------------------------------------------------------------------------------------------------------
# implementation side
_MAPS = {}


def _bind():
    core.bind_repo()
    import pyx12.map_if
    if not getattr(pyx12.map_if, '_c10_cached', False):
        orig = pyx12.map_if.load_map_file

        def cached(fname, param, map_path=None):
            k = (fname, map_path)
            if k not in _MAPS:
                _MAPS[k] = orig(fname, param, map_path)
            return _MAPS[k]
        pyx12.map_if.load_map_file = cached
        pyx12.map_if._c10_cached = True


class IM(object):
    """implementation state: fresh tree from the real context reader"""
    def __init__(self, cfg):
        _bind()
        import pyx12.x12context, pyx12.params, pyx12.error_handler
        self.cfg = cfg
        rd = pyx12.x12context.X12ContextReader(pyx12.params.params(), pyx12.error_handler.errh_null(), io.StringIO(TEXT[cfg['doc']]))
        self.T = None
        for t in rd.iter_segments(cfg['loop']):
            if t.id == cfg['loop']:
                self.T = t
                break
        self.B = self.T
        for l in cfg['base']:
            self.B = self.B.first(l)
        self.X = None
        self.xkind = None

    def handle(self, H):
        if H == 'R':
            return self.B
        if H == 'Rc':
            return self.B.first(self.cfg['child'])
        if H == 'Rs':
            return self.B.first(INIT[self.cfg['name']]['anchor'])
        if H in ('C', 'K'):
            return self.X
        if H == 'Cc':
            return self.X.first(self.cfg['child'])


def i_canon_seg(seg):
    s = seg.format('~', '*', ':')
    sid, els = parse_seg(s)
    return sid, canon_els(els)


def i_ser(node):
    """flat serialisation [(enclosing loop id per the map node, seg id, elements)]"""
    if node is None:
        return None
    out = []
    for d in node.iterate_segments():
        sid, els = i_canon_seg(d['segment'])
        out.append((d['path'].loop_list[-1] if d.get('path') is not None and d['path'].loop_list else '?', sid, els))
    return out


def i_struct(node):
    if node is None:
        return None
    out = []
    try:
        for d in node.iterate_loop_segments():
            if d['type'] == 'seg':
                out.append(('s',) + i_canon_seg(d['segment']))
            else:
                out.append((d['type'], d['id']))
            if len(out) > EVENT_CAP:
                raise TreeTooLarge()
    except TreeTooLarge:
        raise
    except Exception as e:
        out.append(('exc', type(e).__name__))
    return tuple(out)


class TreeTooLarge(MemoryError):
    """the event stream of a tree that holds a few hundred nodes has more than EVENT_CAP events: something in it grows without
    bound (reported like running out of memory, long before that happens)"""


EVENT_CAP = 100000


MEMKEY = 'C10|resource|a tree grows without bound'
MEMMSG = 'the event stream of a tree exceeds 100 000 events, or MemoryError under the 6 GB address-space limit of this check, while replaying / observing this history (the trees under test hold a few hundred objects)'


def call(fn):
    try:
        return 'ok', fn()
    except Exception as e:
        return 'exc', e


def eclass(e):
    import pyx12.errors
    if isinstance(e, pyx12.errors.X12PathError):
        return 'P'
    if isinstance(e, pyx12.errors.EngineError):
        return 'E'
    return type(e).__name__


def mkseg(s):
    import pyx12.segment
    return pyx12.segment.Segment(s + '~', '~', '*', ':')


# ------------------------------------------------------------------------------------------------------
# one API call on (model, implementation) in lock-step
def sers(ms, im):
    return i_ser(im.T), i_ser(im.X)


def diff_msg(got, want):
    if got is None or want is None:
        return 'got %r want %r' % (got, want)
    for i in range(max(len(got), len(want))):
        a = got[i] if i < len(got) else None
        b = want[i] if i < len(want) else None
        if a != b:
            return 'first difference at segment %d: tree has %s, expected %s' % (
                i, a and (a[0] + '/' + fmt_seg(a[1], a[2])), b and (b[0] + '/' + fmt_seg(b[1], b[2])))
    return 'equal'


def pretty(ev):
    op = ev[0]
    if op in ('set',):
        return "%s.set_value('%s', '%s')" % (ev[1], fmt_path(ev[2]), ev[3])
    if op == 'setraw':
        return "%s.set_value('%s', '%s')" % (ev[1], ev[2], ev[3])
    if op == 'adds':
        return "%s.add_segment('%s')" % (ev[1], ev[2])
    if op == 'addl':
        return "%s.add_loop('%s')" % (ev[1], ev[2])
    if op == 'addn':
        return "%s.add_node(copy)" % ev[1]
    if op == 'dels':
        return "%s.delete_segment('%s')" % (ev[1], ev[2])
    if op == 'deln':
        return "%s.delete_node('%s')" % (ev[1], fmt_path(ev[2]))
    if op == 'delnraw':
        return "%s.delete_node('%s')" % (ev[1], ev[2])
    if op == 'copy':
        return "copy = %s.copy()" % ev[1]
    return str(ev)


def pretty_hist(hist):
    return '; '.join(pretty(e) for e in hist if e[0] != 'init')


OPNAME = {'set': 'set_value', 'setraw': 'set_value', 'adds': 'add_segment', 'addl': 'add_loop', 'addn': 'add_node',
          'dels': 'delete_segment', 'deln': 'delete_node', 'delnraw': 'delete_node', 'copy': 'copy'}


def m_resolve_seg(Hm, P):
    """-> (A, B): first-loop-only and depth-first resolution of a segment path from handle node Hm; raises PathErr/OpenCase"""
    ups, loops, sid, q, ele, sub = P
    start = m_start(Hm, ups)
    if start.k == 'seg':
        # a segment node addresses itself
        if loops:
            raise PathErr()
        if sid is None or seg_matches(start, sid, q):
            return start, start
        return None, None
    if sid is None:
        raise OpenCase('element index without segment id on a loop node')
    A = m_first_chain(start, loops, sid, q)
    r = [x for x in m_select(start, loops, sid, q) if x.k == 'seg']
    return A, (r[0] if r else None)


def offered(ms, ev):
    """is the event in the alphabet of this state?  (decided on the model only)"""
    op = ev[0]
    if op == 'Q':
        return True
    H = ev[1]
    Hm = ms.handle(H)
    if Hm is None:
        return False
    if op == 'copy':
        return ms.X is None
    if op == 'addn':
        return ms.X is not None and not ms.attached
    if op in ('set', 'deln'):
        try:
            m_start(Hm, ev[2][0])
        except PathErr:
            return True
        except OpenCase:
            return False
    return True


def step(ms, im, ev, counters=None, check=True):
    """apply ev to both, compare.  -> (viols, outcome)"""
    op = ev[0]
    if op == 'Q':
        return battery(ms, im, counters), 'battery'
    H = ev[1]
    name = '%s@%s' % (OPNAME[op], HK[H])
    viols = []

    def bad(what, msg):
        viols.append(('C10|%s@%s|%s' % (OPNAME[op], TG[H], COARSE.get(what, what)), msg))

    Hm = ms.handle(H)
    st, Hi = call(lambda: im.handle(H))
    if st == 'exc' or Hi is None:
        return [handle_viol(H, st, Hi, 'before ' + pretty(ev))], name + '|nohandle'
    if check:
        before_T, before_X = sers(ms, im)
        mflat_T0 = m_flat(ms.T)
        mflat_X0 = m_flat(ms.X) if ms.X is not None else None
    expect = 'ok'      # ok | err | soft
    result = 'ok'
    exp_ret = None
    check_ret = None

    # ---- model + call ---------------------------------------------------------------------------
    if op == 'set':
        P = ev[2]
        ps = fmt_path(P)
        st, r = call(lambda: Hi.set_value(ps, ev[3]))
        try:
            A, Bn = m_resolve_seg(Hm, P)
            if P[4] is None:
                expect = 'err'      # no element index: nothing to set
            elif A is Bn:
                if A is None:
                    expect = 'err'
                else:
                    m_setval(A, P[4], P[5], ev[3])
            else:
                # statement leaves open which of several loop instances 'the path' means
                if counters is not None:
                    counters['open:first-loop-instance-only vs depth-first'] += 1
                expect = 'any'
                if st == 'ok':
                    m_setval(A if A is not None else Bn, P[4], P[5], ev[3])
        except PathErr:
            expect = 'err'
        except OpenCase:
            expect = 'any'
    elif op == 'setraw':
        st, r = call(lambda: Hi.set_value(ev[2], ev[3]))
        expect = 'err'
    elif op == 'adds':
        sid, els = parse_seg(ev[2])
        st, r = call(lambda: Hi.add_segment(mkseg(ev[2])))
        g = match_seg(Hm.g, sid, els) if Hm.k == 'loop' else None
        if g is None:
            expect = 'err'
        else:
            n = MN('seg', sid, g, Hm); n.els = els
            idx = m_insert(Hm, n)
            result = 'ok-' + ('end' if idx == len(Hm.ch) - 1 else 'front' if idx == 0 else 'mid')
            check_ret = lambda r: r is not None and i_ser(r) is not None and [x[1:] for x in i_ser(r)] == [(sid, canon_els(els))]
    elif op == 'addl':
        sid, els = parse_seg(ev[2])
        st, r = call(lambda: Hi.add_loop(mkseg(ev[2])))
        gl = match_loop(Hm.g, sid, els) if Hm.k == 'loop' else None
        if gl is None:
            expect = 'err'
        else:
            ln = MN('loop', gl.id, gl, Hm)
            sn = MN('seg', sid, match_seg(gl, sid, els), ln); sn.els = els
            ln.ch.append(sn)
            idx = m_insert(Hm, ln)
            result = 'ok-' + ('end' if idx == len(Hm.ch) - 1 else 'front' if idx == 0 else 'mid')
            check_ret = lambda r: r is not None and r.id == gl.id and [x[1:] for x in i_ser(r)] == [(sid, canon_els(els))]
    elif op == 'addn':
        st, r = call(lambda: Hi.add_node(im.X))
        if ms.X.g.parent is not Hm.g:
            expect = 'err'
        else:
            ms.X.parent = Hm
            m_insert(Hm, ms.X)
            ms.attached = True
    elif op == 'dels':
        sid, els = parse_seg(ev[2])
        st, r = call(lambda: Hi.delete_segment(mkseg(ev[2])))
        exp_ret = False
        if Hm.k == 'loop' and match_seg(Hm.g, sid, els) is not None:
            exact = [c for c in Hm.ch[1:] if c.k == 'seg' and c.id == sid and [list(x) for x in c.els] == els]
            loose = [c for c in Hm.ch[1:] if c.k == 'seg' and c.id == sid and canon_els(c.els) == canon_els(els)]
            first_is_loop = bool(Hm.ch) and Hm.ch[0].k == 'loop'
            if first_is_loop or (loose and not exact) or (exact and loose and exact[0] is not loose[0]):
                # 'first segment of the loop' / equality up to trailing empty elements: left open
                if counters is not None:
                    counters['open:delete_segment equality or anchor'] += 1
                if st == 'ok' and r is True and loose:
                    Hm.ch.remove(loose[0]); exp_ret = True
                elif st == 'ok':
                    exp_ret = r
            elif exact:
                Hm.ch.remove(exact[0]); exp_ret = True
        result = 'ok-%s' % exp_ret
    elif op == 'deln':
        P = ev[2]
        ps = fmt_path(P)
        st, r = call(lambda: Hi.delete_node(ps))
        exp_ret = False
        try:
            start = m_start(Hm, P[0])
            found = m_select(start, P[1], P[2], P[3])
            if found:
                found[0].parent.ch.remove(found[0])
                if found[0] is ms.X:
                    ms.attached = False; ms.X = None; ms.xkind = None; im.X = None
                exp_ret = True
        except PathErr:
            expect = 'err'
        except OpenCase:
            expect = 'any'
        result = 'ok-%s' % exp_ret
    elif op == 'delnraw':
        st, r = call(lambda: Hi.delete_node(ev[2]))
        expect = 'soft'
    elif op == 'copy':
        st, r = call(lambda: Hi.copy())
        ms.X = m_copy(Hm, None if Hm.parent is None else OPEN)
        ms.X.isx = True
        ms.xkind = 'C' if H == 'R' else 'K'
        if st == 'ok':
            im.X = r
            im.xkind = ms.xkind
        check_ret = lambda r: r is not None and r is not Hi
    else:
        raise RuntimeError('unknown event %r' % (ev,))

    if not check:
        return [], name
    # ---- outcome of the call ----------------------------------------------------------------------
    if st == 'exc':
        ec = eclass(r)
        if ec not in ('P', 'E'):
            viols.append(('C10|%s|raises %s@%s' % (OPNAME[op], ec, core.where(r)), '%s raised %r' % (pretty(ev), r)))
            return viols, name + '|raises'
        if expect == 'ok':
            bad('unexpected %s' % ('X12PathError' if ec == 'P' else 'EngineError'), '%s raised %r but the model says it is valid' % (pretty(ev), r))
            return viols, name + '|raises'
        result = 'patherr'
    else:
        if expect == 'err':
            bad('no error for an invalid argument', '%s returned %r; the model says X12PathError' % (pretty(ev), r))
        elif expect == 'soft':
            if r not in (None, False):
                bad('no error for an invalid argument', '%s returned %r' % (pretty(ev), r))
            result = 'soft-noop'
        elif exp_ret is not None and expect == 'ok' and r is not exp_ret:
            bad('return value', '%s returned %r, model says %r' % (pretty(ev), r, exp_ret))
        if check_ret is not None and expect == 'ok':
            cs, cr = call(lambda: check_ret(r))
            if cs == 'exc' or not cr:
                bad('returned node', '%s returned a node that is not the added/copied one (%r)' % (pretty(ev), cr))

    # ---- serialisations after the call --------------------------------------------------------------
    sa, after = call(lambda: sers(ms, im))
    if sa == 'exc':
        viols.append(('C10|iterate_segments|raises %s@%s' % (type(after).__name__, core.where(after)), 'after %s: iterate_segments raised %r' % (pretty(ev), after)))
        return viols, name + '|ser-raises'
    after_T, after_X = after
    want_T = m_flat(ms.T)
    want_X = m_flat(ms.X) if ms.X is not None else None
    if after_T != want_T:
        if H in ('C', 'Cc', 'K') and not ms.attached and op != 'addn' and want_T == mflat_T0 and after_T != before_T:
            bad('original changed by an edit made through the copy', 'after %s the ORIGINAL changed: %s' % (pretty(ev), diff_msg(after_T, want_T)))
        elif op in ('adds', 'addl', 'addn') and sorted(after_T) == sorted(want_T):
            bad('inserted at the wrong position', 'after %s: %s' % (pretty(ev), diff_msg(after_T, want_T)))
        else:
            bad('tree serialisation differs from model', 'after %s: %s' % (pretty(ev), diff_msg(after_T, want_T)))
    if after_X != want_X and not any('ORIGINAL changed' in m for _, m in viols):
        if H in ('R', 'Rc', 'Rs') and op != 'copy' and not ms.attached and after_X != before_X and want_X == mflat_X0:
            bad('copy changed by an edit of the original', 'after %s the COPY changed: %s' % (pretty(ev), diff_msg(after_X, want_X)))
        elif op == 'copy':
            bad('copy differs from its source', 'after %s: %s' % (pretty(ev), diff_msg(after_X, want_X)))
        elif op in ('adds', 'addl') and after_X is not None and want_X is not None and sorted(after_X) == sorted(want_X):
            bad('inserted at the wrong position', 'after %s (copy): %s' % (pretty(ev), diff_msg(after_X, want_X)))
        else:
            bad('copy serialisation differs from model', 'after %s: %s' % (pretty(ev), diff_msg(after_X, want_X)))
    # read-after-write through the same path
    if op == 'set' and not viols and st == 'ok' and expect in ('ok', 'any'):
        gs, gv = call(lambda: Hi.get_value(fmt_path(ev[2])))
        if gs == 'exc':
            if eclass(gv) in ('P', 'E'):
                bad('raises for a valid path', 'get_value after %s raised %r' % (pretty(ev), gv))
            else:
                viols.append(('C10|get_value|raises %s@%s' % (eclass(gv), core.where(gv)), 'get_value after %s raised %r' % (pretty(ev), gv)))
        elif gv != ev[3]:
            bad('read-after-write', 'after %s get_value of the same path returned %r' % (pretty(ev), gv))
    return viols, name + '|' + result


# ------------------------------------------------------------------------------------------------------
# query battery: exists / count / first / select / get_value over every derived path, on every handle
def battery(ms, im, counters=None):
    viols = []
    seen = set()
    nq = 0

    def bad(H, what, msg):
        k = 'C10|query@%s|%s' % (TG[H], COARSE.get(what, what))
        if k not in seen:
            seen.add(k)
            viols.append((k, msg))

    def badraw(k, msg):
        if k not in seen:
            seen.add(k)
            viols.append((k, msg))

    b0 = call(lambda: sers(ms, im))
    if b0[0] == 'exc':
        return [('C10|iterate_segments|raises %s@%s' % (type(b0[1]).__name__, core.where(b0[1])), 'iterate_segments raised %r' % (b0[1],))]
    ini = INIT[ms.cfg['name']]
    for H in ('R', 'Rc', 'Rs', 'C', 'Cc', 'K'):
        Hm = ms.handle(H)
        if Hm is None:
            continue
        st, Hi = call(lambda: im.handle(H))
        if st == 'exc' or Hi is None:
            badraw(*handle_viol(H, st, Hi, 'query battery'))
            continue
        kind = {'R': 'base', 'C': 'base', 'Rc': 'child', 'Cc': 'child', 'K': 'child', 'Rs': 'seg'}[H]
        # ---- node paths ---------------------------------------------------------------------------
        for P in ini['np'][kind]:
            ps = fmt_path(P)
            try:
                start = m_start(Hm, P[0])
                want = m_select(start, P[1], P[2], P[3])
                exp = 'ok'
            except PathErr:
                exp = 'err'
            except OpenCase:
                if counters is not None:
                    counters['open:query'] += 1
                continue
            e = call(lambda: Hi.exists(ps)); c = call(lambda: Hi.count(ps)); f = call(lambda: Hi.first(ps)); s = call(lambda: list(Hi.select(ps)))
            nq += 4
            res = {'exists': e, 'count': c, 'first': f, 'select': s}
            excs = [(k, v[1]) for k, v in res.items() if v[0] == 'exc']
            if kind == 'seg':
                # a segment node has no sub-nodes: everything must be empty
                want = []
                exp = 'ok' if exp == 'ok' else exp
            if excs:
                k, x = excs[0]
                ec = eclass(x)
                if ec not in ('P', 'E'):
                    badraw('C10|%s|raises %s@%s' % (k, ec, core.where(x)), "%s.%s('%s') raised %r" % (H, k, ps, x))
                elif exp == 'ok' and kind != 'seg':
                    bad(H, 'raises for a valid path', "%s.%s('%s') raised %r" % (H, k, ps, x))
                elif len(excs) != 4 and kind != 'seg':
                    bad(H, 'query methods disagree', "path '%s' on %s: %s raise, others do not" % (ps, H, [k for k, _ in excs]))
                continue
            if exp == 'err' and kind != 'seg':
                bad(H, 'no error for a path above the root', "path '%s' on %s: no X12PathError" % (ps, H))
                continue
            ev_, cv, fv, sv = e[1], c[1], f[1], s[1]
            if not (bool(ev_) == (cv > 0) == (fv is not None) == (len(sv) > 0)) or cv != len(sv) or (sv and fv is not sv[0]):
                bad(H, 'query methods disagree', "path '%s' on %s: exists=%r count=%r first=%r len(select)=%d" % (ps, H, ev_, cv, fv is not None, len(sv)))
                continue
            if cv != len(want):
                bad(H, 'count differs from model', "path '%s' on %s: count=%d, model has %d" % (ps, H, cv, len(want)))
                continue
            for a, b in zip(sv, want):
                ss = call(lambda: i_ser(a))
                wf = m_flat(b)
                if ss[0] == 'exc' or [x[1:] for x in ss[1]] != [x[1:] for x in wf]:
                    bad(H, 'selected node differs from model', "path '%s' on %s: a selected node serialises differently from the model's" % (ps, H))
                    break
        # ---- element paths ---------------------------------------------------------------------------
        for P in ini['ep'][kind]:
            ps = fmt_path(P)
            try:
                A, Bn = m_resolve_seg(Hm, P)
                exp = 'ok'
            except PathErr:
                exp = 'err'
            except OpenCase:
                if counters is not None:
                    counters['open:query'] += 1
                continue
            g = call(lambda: Hi.get_value(ps))
            nq += 1
            if g[0] == 'exc':
                ec = eclass(g[1])
                if P[4] is None and ec == 'IndexError':
                    continue        # pinned by test_get_seg_value_fail_no_element_index
                if ec not in ('P', 'E'):
                    badraw('C10|get_value|raises %s@%s' % (ec, core.where(g[1])), "%s.get_value('%s') raised %r" % (H, ps, g[1]))
                elif exp == 'ok' and P[4] is not None:
                    bad(H, 'raises for a valid path', "%s.get_value('%s') raised %r" % (H, ps, g[1]))
                continue
            if exp == 'err':
                bad(H, 'no error for a path above the root', "get_value('%s') on %s returned %r" % (ps, H, g[1]))
                continue
            if P[4] is None:
                if g[1] is not None:
                    bad(H, 'get_value without element index', "get_value('%s') on %s returned %r" % (ps, H, g[1]))
                continue
            cands = []
            for n in (A, Bn):
                cands.append(None if n is None else m_getval(n, P[4], P[5]))
            if A is not Bn and counters is not None:
                counters['open:first-loop-instance-only vs depth-first'] += 1
            ok = False
            for n, w in zip((A, Bn), cands):
                if n is None:
                    ok = ok or g[1] is None
                else:
                    ok = ok or (g[1] or '') == w
            if not ok:
                bad(H, 'get_value differs from model', "get_value('%s') on %s returned %r, model %r" % (ps, H, g[1], cands[0]))
        # ---- malformed / blank paths ---------------------------------------------------------------------
        for raw in RAW:
            for meth in ('exists', 'count', 'first', 'get_value'):
                g = call(lambda: getattr(Hi, meth)(raw))
                nq += 1
                if g[0] == 'exc':
                    ec = eclass(g[1])
                    if ec not in ('P', 'E'):
                        badraw('C10|%s|raises %s@%s' % (meth, ec, core.where(g[1])), "%s.%s(%r) raised %r" % (H, meth, raw, g[1]))
                elif g[1] not in (None, False, 0):
                    bad(H, 'malformed path finds something', "%s.%s(%r) returned %r" % (H, meth, raw, g[1]))
    b1 = call(lambda: sers(ms, im))
    if b1[0] == 'exc' or b1[1] != b0[1]:
        viols.append(('C10|query|a query changed the tree', 'serialisation differs before/after the query battery'))
    if b0[1][0] != m_flat(ms.T):
        viols.append(('C10|query@tree|' + DIFFERS, diff_msg(b0[1][0], m_flat(ms.T))))
    if counters is not None:
        counters['queries'] += nq
        counters['batteries'] += 1
    return viols


RAW = ['', 'CLM[', '[F8]02', '2400/02', 'clm01']


# ------------------------------------------------------------------------------------------------------
# alphabets, derived from the initial tree and the grammar
def seg_entries(N, maxdepth=2):
    out = []

    def rec(n, loops):
        ids = set()
        for c in n.ch:
            if c.k == 'seg':
                out.append((loops, c, c.id not in ids))
                ids.add(c.id)
            elif len(loops) < maxdepth:
                rec(c, loops + (c.id,))
    rec(N, ())
    return out


def loop_entries(N, maxdepth=2):
    out = []

    def rec(n, loops):
        for c in n.ch:
            if c.k == 'loop' and len(loops) < maxdepth:
                if loops + (c.id,) not in out:
                    out.append(loops + (c.id,))
                rec(c, loops + (c.id,))
    rec(N, ())
    return out


def ele_choices(s):
    """[(ele, sub, kind, value)] skipping the qualifier element"""
    codes, where = qual(s.g)
    qe = int(where[:2]) if codes is not None else None
    qs = int(where[3:]) if codes is not None and '-' in where else None
    out = []
    n = len(s.els)
    for e in range(1, n + 1):
        comp = s.els[e - 1]
        if len(comp) > 1:
            if qe != e:
                out.append((e, None, 'whole', VAL))
            for k in range(1, len(comp) + 1):
                if not (qe == e and (qs is None or qs == k)):
                    out.append((e, k, 'sub', VAL))
        elif qe != e:
            out.append((e, None, 'simple', VAL))
    out.append((n + 2, None, 'pad', VAL))
    if n >= 2 and qe != n and len(s.els[n - 1]) == 1:
        out.append((n, 2, 'subpad', VAL))
        out.append((n, None, 'clear', ''))
    return out


def synth(g):
    """a data segment matching grammar segment node g"""
    codes, where = qual(g)
    if codes is None:
        return '%s*A1*B2' % g.id
    if where == '01':
        return '%s*%s*A1' % (g.id, codes[0])
    if where == '01-1':
        return '%s*%s:A1*B2' % (g.id, codes[0])
    return None


def templates(N, Pn):
    """all event templates for a loop node N (initial model), Pn = its parent or None.
    set: (P, value, info)  deln: (P, info)  adds/addl/dels: (segment, class)  np/ep: query paths"""
    T = {'set': [], 'adds': [], 'addl': [], 'dels': [], 'deln': [], 'np': [], 'ep': []}
    seen = set()
    for loops, s, first in seg_entries(N):
        q = qv(s)
        for qq in ([None] if first else []) + ([q] if q is not None else []):
            key = (loops, s.id, qq)
            if key in seen:
                continue
            seen.add(key)
            info = {'ups': 0, 'nl': len(loops), 'qual': qq is not None, 'nonfirst': not first, 'anchor': s is s.parent.ch[0]}
            T['np'].append((0, loops, s.id, qq, None, None))
            T['deln'].append(((0, loops, s.id, qq, None, None), dict(info, type='seg')))
            for e, k, kind, v in ele_choices(s):
                T['set'].append(((0, loops, s.id, qq, e, k), v, dict(info, kind=kind)))
                T['ep'].append((0, loops, s.id, qq, e, k))
            T['ep'].append((0, loops, s.id, qq, None, None))
        if q is not None:
            # the same segment asked for under a qualifier it does NOT carry: another valid code of the same
            # definition, and a value that is no code at all -- both must find nothing
            codes = qual(s.g)[0] or []
            for oq in [c for c in codes if c != q and ':' not in c][-1:] + ['ZQ9']:
                if (loops, s.id, oq) in seen:
                    continue
                seen.add((loops, s.id, oq))
                T['np'].append((0, loops, s.id, oq, None, None))
                T['ep'].append((0, loops, s.id, oq, 2, None))
    for loops in loop_entries(N):
        multi = len(m_select(N, loops, None, None)) > 1
        T['np'].append((0, loops[:-1], loops[-1], None, None, None))
        T['deln'].append(((0, loops[:-1], loops[-1], None, None, None), {'type': 'loop', 'ups': 0, 'nl': len(loops), 'multi': multi, 'qual': False, 'nonfirst': False}))
    # '../' forms
    if Pn is not None:
        ids = set()
        for c in Pn.ch:
            if c.k == 'seg':
                q = qv(c)
                for qq in ([None] if c.id not in ids else []) + ([q] if q is not None else []):
                    ch = [x for x in ele_choices(c) if x[2] == 'simple']
                    if ch:
                        T['set'].append(((1, (), c.id, qq, ch[0][0], None), VAL, {'ups': 1, 'nl': 0, 'qual': qq is not None, 'nonfirst': c.id in ids, 'kind': 'simple'}))
                        T['ep'].append((1, (), c.id, qq, ch[0][0], None))
                    T['np'].append((1, (), c.id, qq, None, None))
                ids.add(c.id)
            elif c is not N and c.id != N.id and (1, (), c.id, None, None, None) not in T['np']:
                T['np'].append((1, (), c.id, None, None, None))
                a = c.ch[0]
                ch = [x for x in ele_choices(a) if x[2] == 'simple']
                T['set'].append(((1, (c.id,), a.id, None, ch[0][0], None), VAL, {'ups': 1, 'nl': 1, 'qual': False, 'nonfirst': False, 'kind': 'simple'}))
                T['ep'].append((1, (c.id,), a.id, None, ch[0][0], None))
        T['deln'].append(((1, (), Pn.ch[1].id, None, None, None), {'type': 'seg', 'ups': 1, 'nl': 0, 'qual': False, 'nonfirst': False}))
    else:
        a = N.ch[0]
        T['set'].append(((1, (), a.id, None, 1, None), VAL, {'ups': 1, 'nl': 0, 'qual': False, 'nonfirst': False, 'kind': 'simple'}))
        T['ep'].append((1, (), a.id, None, 1, None))
        T['np'].append((1, (), a.id, None, None, None))
        T['deln'].append(((1, (), a.id, None, None, None), {'type': 'seg', 'ups': 1, 'nl': 0, 'qual': False, 'nonfirst': False}))
    # absent
    T['np'] += [(0, (), 'ZZZ', None, None, None), (0, ('2999',), None, None, None, None), (0, ('2999',), 'ZZZ', None, None, None)]
    T['ep'] += [(0, (), 'ZZZ', None, 1, None), (0, ('2999',), 'ZZZ', None, 1, None)]
    T['set'].append(((0, (), 'ZZZ', None, 1, None), VAL, {'ups': 0, 'nl': 0, 'qual': False, 'nonfirst': False, 'kind': 'absent'}))
    T['set'].append(((0, (), N.ch[0].id, None, None, None), VAL, {'ups': 0, 'nl': 0, 'qual': False, 'nonfirst': False, 'kind': 'noindex'}))
    T['deln'].append(((0, (), 'ZZZ', None, None, None), {'type': 'absent', 'ups': 0, 'nl': 0, 'qual': False, 'nonfirst': False}))
    # insertions: classify grammar children against the initial children
    present_pos = [c.pos for c in N.ch[1:]]
    seg_pos = [c.pos for c in N.ch[1:] if c.k == 'seg']
    loop_pos = [c.pos for c in N.ch if c.k == 'loop']
    present_g = set(id(c.g) for c in N.ch)
    for g in N.g.children:
        if g.kind == 'seg':
            s = synth(g)
            if s is None:
                continue
            sid, els = parse_seg(s)
            if match_seg(N.g, sid, els) is not g:
                continue
            if g is N.ch[0].g:
                cls = 'anchor'
            elif id(g) in present_g:
                cls = 'dup'
            elif present_pos and g.pos < min(present_pos):
                cls = 'early'
            elif g.pos in present_pos:
                cls = 'samepos'
            elif seg_pos and g.pos > max(seg_pos) and (not loop_pos or g.pos < min(loop_pos)):
                cls = 'late'
            elif loop_pos and g.pos > min(loop_pos):
                cls = 'afterloop'
            else:
                cls = 'mid'
            T['adds'].append((s, cls))
            codes, where = qual(g)
            q = val_at(els, where) if codes is not None else None
            if cls != 'anchor':
                T['dels'].append((s, 'added-' + cls))
            if (0, (), sid, q, None, None) not in T['np']:
                T['np'].append((0, (), sid, q, None, None))
                T['ep'].append((0, (), sid, q, 2, None))
                T['deln'].append(((0, (), sid, q, None, None), {'type': 'added', 'ups': 0, 'nl': 0, 'qual': q is not None, 'nonfirst': False, 'cls': cls}))
        else:
            first = g.children[0]
            if first.kind != 'seg':
                continue
            s = synth(first)
            if s is None:
                continue
            sid, els = parse_seg(s)
            if match_loop(N.g, sid, els) is not g:
                continue
            if id(g) in present_g:
                cls = 'dup'
            elif present_pos and g.pos < min(present_pos):
                cls = 'early'
            elif g.pos in present_pos:
                cls = 'samepos'
            elif loop_pos and g.pos < min(loop_pos):
                cls = 'beforeloops'
            elif present_pos and g.pos > max(present_pos):
                cls = 'late'
            else:
                cls = 'mid'
            T['addl'].append((s, cls))
            if (0, (), g.id, None, None, None) not in T['np']:
                T['np'].append((0, (), g.id, None, None, None))
                T['np'].append((0, (g.id,), sid, None, None, None))
                T['ep'].append((0, (g.id,), sid, None, 2, None))
    T['adds'].append(('ZZZ*A1', 'nonmember'))
    T['addl'].append(('ZZZ*A1', 'nonmember'))
    # delete_segment of present children
    ids = set()
    for i, c in enumerate(N.ch):
        if c.k == 'seg':
            cls = 'anchor' if i == 0 else ('second-of-id' if c.id in ids else 'present')
            T['dels'].append((fmt_seg(c.id, c.els), cls))
            ids.add(c.id)
    T['dels'].append(('ZZZ*A1', 'nonmember'))
    return T


def first_per(items, keyf, cap=1):
    seen = {}
    out = []
    for it in items:
        k = keyf(it)
        if seen.get(k, 0) < cap:
            seen[k] = seen.get(k, 0) + 1
            out.append(it)
    return out


def pick(items, preds):
    """first item satisfying each predicate, in order, without repeats"""
    out = []
    for p in preds:
        for it in items:
            if p(it) and it not in out:
                out.append(it)
                break
    return out


def cls_in(*names):
    return [(lambda x, n=n: x[1] == n) for n in names]


SEL = {
    'narrow': {
        'set': [lambda x: x[2]['ups'] == 0 and x[2]['nl'] == 0 and x[2]['kind'] == 'simple' and not x[2]['qual'],
                lambda x: x[2]['ups'] == 0 and x[2]['nl'] == 1 and x[2]['kind'] == 'simple' and not x[2]['qual'],
                lambda x: x[2]['ups'] == 0 and x[2]['nl'] == 2 and x[2]['kind'] == 'simple',
                lambda x: x[2]['ups'] == 1,
                lambda x: x[2]['qual'] and x[2]['nonfirst'],
                lambda x: x[2]['kind'] == 'whole', lambda x: x[2]['kind'] == 'sub', lambda x: x[2]['kind'] == 'pad',
                lambda x: x[2]['kind'] == 'clear'],
        'adds': cls_in('anchor', 'early', 'samepos', 'late', 'mid'),
        'addl': cls_in('dup', 'samepos', 'beforeloops', 'early', 'late'),
        'dels': cls_in('present', 'second-of-id', 'added-samepos'),
        'deln': [lambda x: x[1]['type'] == 'seg' and x[1].get('anchor') and x[1]['nl'] == 0,
                 lambda x: x[1]['type'] == 'seg' and x[1]['qual'] and x[1]['nonfirst'],
                 lambda x: x[1]['type'] == 'loop' and x[1]['nl'] == 1 and x[1]['multi'],
                 lambda x: x[1]['type'] == 'loop' and x[1]['nl'] == 1 and not x[1]['multi'],
                 lambda x: x[1]['type'] == 'loop' and x[1]['nl'] == 2,
                 lambda x: x[1]['type'] == 'seg' and x[1]['nl'] == 1 and x[1]['qual'],
                 lambda x: x[1]['type'] == 'added' and x[1]['cls'] == 'samepos'],
    },
    'small': {
        'set': [lambda x: x[2]['ups'] == 0 and x[2]['nl'] == 0 and x[2]['kind'] == 'simple' and not x[2]['qual'],
                lambda x: x[2]['ups'] == 1,
                lambda x: x[2]['ups'] == 0 and x[2]['nl'] == 1 and x[2]['kind'] == 'simple',
                lambda x: x[2]['kind'] == 'sub'],
        'adds': cls_in('late', 'samepos'),
        'addl': cls_in('dup'),
        'dels': cls_in('present'),
        'deln': [lambda x: x[1]['type'] == 'loop' and x[1]['nl'] == 1,
                 lambda x: x[1]['type'] == 'seg' and x[1]['qual'] and not x[1].get('anchor') and x[1]['nl'] == 0],
    },
    'mini': {
        'set': [lambda x: x[2]['ups'] == 0 and x[2]['nl'] == 0 and x[2]['kind'] == 'simple' and not x[2]['qual'],
                lambda x: x[2]['ups'] == 1],
        'adds': cls_in('samepos'),
        'addl': [],
        'dels': cls_in('present'),
        'deln': [lambda x: x[1]['type'] == 'loop' and x[1]['nl'] == 1],
    },
}


def events_for(T, H, width):
    """instantiate templates on handle H.  width: wide | narrow | small | mini"""
    ev = []
    if width == 'wide':
        sets = T['set']
        adds = first_per(T['adds'], lambda x: x[1], cap=2)
        addl = first_per(T['addl'], lambda x: x[1], cap=2)
        dels = T['dels']
        deln = first_per(T['deln'], lambda x: x[1]['cls'] if x[1]['type'] == 'added' else id(x))
    else:
        sel = SEL[width]
        sets = pick(T['set'], sel['set'])
        adds = pick(T['adds'], sel['adds'])
        addl = pick(T['addl'], sel['addl'])
        dels = pick(T['dels'], sel['dels'])
        deln = pick(T['deln'], sel['deln'])
    for P, v, info in sets:
        ev.append(('set', H, P, v))
    for s, cls in adds:
        ev.append(('adds', H, s))
    for s, cls in addl:
        ev.append(('addl', H, s))
    for s, cls in dels:
        ev.append(('dels', H, s))
    for P, info in deln:
        ev.append(('deln', H, P))
    return ev


INIT = {}
TEXT = {}
_ALPHA = {}


def setup(name):
    """model of the initial tree, templates and query path lists for one configuration"""
    if name in INIT:
        return INIT[name]
    cfg = dict(CFG[name]); cfg['name'] = name
    TEXT[cfg['doc']] = doc_text(cfg['doc'])
    INIT[name] = ini = {'cfg': cfg, 'anchor': None}
    d = DOCS[cfg['doc']]
    lit = find_lit(d['outer'], cfg['loop'])
    for l in cfg['base']:
        lit = find_lit(lit, l)
    ini['anchor'] = parse_seg(lit[1][0])[0]
    ms = MS(cfg)
    B = ms.B
    Bc = ms.handle('Rc')
    tb = templates(B, B.parent)
    tc = templates(Bc, B)
    ini['T'] = {'base': tb, 'child': tc}
    a = B.ch[0]
    segP = [(0, (), None, None, 2, None), (0, (), a.id, None, 2, None), (0, (), 'ZZZ', None, 2, None), (1, (), B.ch[1].id, None, 1, None)]
    comp = [i for i, c in enumerate(a.els) if len(c) > 1]
    if comp:
        segP.append((0, (), None, None, comp[0] + 1, 2))
    ini['segP'] = segP
    ini['np'] = {'base': tb['np'], 'child': tc['np'], 'seg': [(0, (), a.id, None, None, None), (0, (B.ch[-1].id,), None, None, None, None)]}
    ini['ep'] = {'base': tb['ep'], 'child': tc['ep'], 'seg': segP}
    return ini


WIDTHS = {
    #          R         Rc        copies    Rs-paths  raw
    'wide':   ('wide',   'wide',   'small',  99, 99),
    'narrow': ('narrow', 'small',  'mini',   2,  1),
    'tiny':   ('small',  'mini',   'mini',   1,  0),
}


def alphabet(name, width):
    k = (name, width)
    if k in _ALPHA:
        return _ALPHA[k]
    ini = setup(name)
    T = ini['T']
    wr, wc, wx, nrs, nraw = WIDTHS[width]
    ev = []
    ev += events_for(T['base'], 'R', wr)
    ev += events_for(T['child'], 'Rc', wc)
    segP = ini['segP']
    if nrs < len(segP):
        segP = [segP[0], segP[3]][:nrs]
    for P in segP:
        ev.append(('set', 'Rs', P, VAL))
    ev += [('copy', 'R'), ('copy', 'Rc'), ('addn', 'R')]
    if width == 'wide':
        ev.append(('addn', 'Rc'))
    ev += events_for(T['base'], 'C', wx)
    ev += events_for(T['child'], 'Cc', wx)
    ev += events_for(T['child'], 'K', wx)
    for raw in ('', 'CLM[', '[F8]02')[:nraw]:
        ev.append(('setraw', 'R', raw, VAL))
    for raw in ('CLM[', '[F8]')[:nraw]:
        ev.append(('delnraw', 'R', raw))
    out = []
    for e in ev:
        if e not in out:
            out.append(e)
    _ALPHA[k] = out
    return out


def tup(x):
    if isinstance(x, list):
        return tuple(tup(y) for y in x)
    return x


_WARMED = set()


def warm_up(ini):
    """every execution first reads every element path of the alphabet on ANOTHER tree of the same document: what a
    query returns on the tree under test must not depend on what was asked of other trees before (shared parse
    caches, class-level state); with the prelude such a dependence shows deterministically and replays reproduce it"""
    if ini['cfg']['name'] in _WARMED:
        return          # process-level state, once per process and configuration is enough (and keeps replays identical)
    _WARMED.add(ini['cfg']['name'])
    try:
        scratch = IM(ini['cfg'])
        for H, key in (('R', 'base'), ('Rc', 'child')):
            node = scratch.handle(H)
            for P in ini['ep'][key]:
                try:
                    node.get_value(fmt_path(P))
                except Exception:
                    pass
    except Exception:
        pass


def replay(hist):
    name = hist[0][1]
    ini = setup(name)
    warm_up(ini)
    ms = MS(ini['cfg'])
    im = IM(ini['cfg'])
    for ev in hist[1:]:
        step(ms, im, ev, check=False)
    return ms, im


def digest(ms, im):
    key = (ms.canon(), i_struct(im.T), i_struct(im.X) if im.X is not None and not ms.attached else None)
    return hashlib.sha1(repr(key).encode()).digest()[:12]


def expand_chunk(hists):
    P = core.Part()
    succ = []
    try:
        for hist in hists:
            _, name, width, depth = hist[0]
            try:
                ms, im = replay(hist)
                v = battery(ms, im, P.counters)
            except MemoryError:
                ms = im = None
                gc.collect()
                P.bad(MEMKEY, {'hist': hist + [('Q',)]}, '%s || state: %s' % (MEMMSG, pretty_hist(hist)))
                P.n += 1
                continue
            P.n += 1
            P.out('battery|%s' % ('ok' if not v else 'viol'))
            for fk, msg in v:
                P.bad(fk, {'hist': hist + [('Q',)]}, '%s || state: %s' % (msg, pretty_hist(hist)))
            if len(hist) - 1 >= depth:
                continue
            for ev in alphabet(name, width):
                ms, im = replay(hist)
                if not offered(ms, ev):
                    P.counters['not offered in state'] += 1
                    continue
                try:
                    viols, outcome = step(ms, im, ev, P.counters)
                except MemoryError:
                    ms = im = None
                    gc.collect()
                    viols, outcome = [(MEMKEY, MEMMSG)], 'memory'
                P.n += 1
                P.transitions += 1
                P.out(outcome)
                if viols:
                    for fk, msg in viols:
                        P.bad(fk, {'hist': hist + [ev]}, '%s || history: %s' % (msg, pretty_hist(hist + [ev])))
                    continue
                try:
                    succ.append((hist, ev, digest(ms, im)))
                except MemoryError:
                    ms = im = None
                    gc.collect()
                    P.bad(MEMKEY, {'hist': hist + [ev]}, '%s || history: %s' % (MEMMSG, pretty_hist(hist + [ev])))
    except Exception as e:
        return ('HARNESS', ''.join(traceback.format_exception(type(e), e, e.__traceback__)))
    return P, succ


def search(R, name, width, depth, max_states):
    init = [('init', name, width, depth)]
    ms, im = replay(init)
    seen = {digest(ms, im)}
    frontier = [init]
    levels = []
    capped = False
    ctx = multiprocessing.get_context('fork')
    pool = ctx.Pool(core.NPROC)
    try:
        for lvl in range(depth + 1):
            if not frontier:
                break
            chunks = core.chunks(R.order(frontier), core.NPROC * 6)
            nxt = []
            cands = []
            ntrans = 0
            for res in pool.imap_unordered(expand_chunk, chunks):
                if isinstance(res, tuple) and res and res[0] == 'HARNESS':
                    R.harness_errors.append(res[1])
                    continue
                P, succ = res
                ntrans += P.transitions
                R.merge(P)
                for hist, ev, key in succ:
                    if key not in seen:
                        cands.append((repr(hist + [ev]), hist + [ev], key))
            # the representative of a state must not depend on pool scheduling: smallest history per key
            cands.sort(key=lambda c: c[0])
            for _, h, key in cands:
                if key not in seen:
                    seen.add(key)
                    nxt.append(h)
            levels.append({'depth': lvl, 'states_expanded': len(frontier), 'transitions': ntrans, 'new_states': len(nxt)})
            if nxt:
                R.total.sample({'search': '%s/%s' % (name, width), 'history': pretty_hist(nxt[len(nxt) // 2])}, cap=6)
            if max_states and len(seen) > max_states and lvl < depth:
                capped = True
                R.caps.append('%s/%s: state cap %d reached at depth %d' % (name, width, max_states, lvl + 1))
                break
            frontier = nxt
    finally:
        pool.terminate()
        pool.join()
    R.total.states += len(seen)
    return {'search': '%s/%s' % (name, width), 'alphabet': len(alphabet(name, width)), 'depth': depth, 'levels': levels,
            'states': len(seen), 'capped': capped}


# ------------------------------------------------------------------------------------------------------
# transplant family: a copy of a child of one loop instance added (add_node) to ANOTHER instance of the same loop.
# Law: the added node lives in the target -- '../P' from it means 'P' from the target, for reading, writing and deleting;
# the source instance is not touched.  (The BFS above only ever adds a copy under the parent its source has.)
TRANSPLANT = [('837p', '2300', '2400'), ('834', '2000', '2300')]


def _fresh(doc, loop):
    import pyx12.x12context, pyx12.params, pyx12.error_handler
    rd = pyx12.x12context.X12ContextReader(pyx12.params.params(), pyx12.error_handler.errh_null(), io.StringIO(TEXT[doc]))
    for t in rd.iter_segments(loop):
        if t.id == loop:
            return t
    return None


def _segs(n):
    return [d['segment'].format() for d in n.iterate_segments()]


def transplant_cases():
    out = []
    for doc, loop, inst in TRANSPLANT:
        t = _fresh(doc, loop)
        insts = list(t.select(inst))
        for a in range(len(insts)):
            for b in range(len(insts)):
                if a == b:
                    continue
                for ci, c in enumerate(insts[a].children):
                    if ci == 0:
                        continue            # the anchor segment opens the instance
                    out.append({'kind': 'transplant', 'doc': doc, 'loop': loop, 'inst': inst, 'a': a, 'b': b, 'child': ci})
    return out


def run_transplant(case):
    """-> [(key, msg)]"""
    out = []
    sids_all = None
    for law in ('read', 'write', 'delete'):
        t = _fresh(case['doc'], case['loop'])
        insts = list(t.select(case['inst']))
        A, B = insts[case['a']], insts[case['b']]
        c = A.children[case['child']]
        where = '%s: copy of child %d (%s) of %s #%d added to %s #%d' % (case['doc'], case['child'], c.id, case['inst'], case['a'] + 1, case['inst'], case['b'] + 1)
        a0 = _segs(A)
        st, K = call(lambda: c.copy())
        if st == 'exc':
            return [('C10|copy|raises %s@%s' % (type(K).__name__, core.where(K)), where + ': copy() raised %r' % (K,))]
        st, r = call(lambda: B.add_node(K))
        if st == 'exc':
            return [('C10|add_node|raises %s@%s' % (type(r).__name__, core.where(r)), where + ': add_node raised %r' % (r,))]
        if _segs(A) != a0:
            out.append(('C10|transplant|source instance changed by add_node', where + ': %s' % diff_msg(_segs(A), a0)))
            return out
        # direct child segments of the target and of the source, by id
        bsegs = [x for x in B.children if x.type == 'seg']
        sids = []
        for x in list(bsegs) + [y for y in A.children if y.type == 'seg']:
            if x.id not in sids:
                sids.append(x.id)
        if law == 'read':
            for sid in sids:
                for meth in ('exists', 'count'):
                    g1 = call(lambda: getattr(K, meth)('../' + sid)); g2 = call(lambda: getattr(B, meth)(sid))
                    if g1[0] == 'exc' or g2[0] == 'exc' or g1[1] != g2[1]:
                        out.append(('C10|transplant|../ from the added node does not resolve in its new parent', where + ": K.%s('../%s') = %r, target.%s('%s') = %r" % (meth, sid, g1[1], meth, sid, g2[1])))
                for e in (1, 2, 3):
                    pth = '%s%02d' % (sid, e)
                    g1 = call(lambda: K.get_value('../' + pth)); g2 = call(lambda: B.get_value(pth))
                    if g1[0] != g2[0] or (g1[0] == 'ok' and g1[1] != g2[1]):
                        out.append(('C10|transplant|../ from the added node does not resolve in its new parent', where + ": K.get_value('../%s') = %r, target.get_value('%s') = %r" % (pth, g1[1], pth, g2[1])))
        elif law == 'write':
            for sid in [x.id for x in bsegs][1:2] + [x.id for x in bsegs][-1:]:
                pth = '%s02' % sid
                g = call(lambda: K.set_value('../' + pth, VAL))
                if g[0] == 'exc':
                    out.append(('C10|transplant|set_value through ../ raises', where + ": K.set_value('../%s') raised %r" % (pth, g[1])))
                    continue
                if _segs(A) != a0:
                    out.append(('C10|transplant|set_value through ../ edits the source instance', where + ": after K.set_value('../%s'): %s" % (pth, diff_msg(_segs(A), a0))))
                    break
                g2 = call(lambda: B.get_value(pth))
                if g2[0] == 'exc' or g2[1] != VAL:
                    out.append(('C10|transplant|set_value through ../ not visible in the new parent', where + ": target.get_value('%s') = %r after K.set_value('../%s', %r)" % (pth, g2[1], pth, VAL)))
        else:
            for sid in [x.id for x in bsegs][1:2]:
                nb = call(lambda: B.count(sid))
                g = call(lambda: K.delete_node('../' + sid))
                if _segs(A) != a0:
                    out.append(('C10|transplant|delete_node through ../ edits the source instance', where + ": after K.delete_node('../%s'): %s" % (sid, diff_msg(_segs(A), a0))))
                    break
                nb2 = call(lambda: B.count(sid))
                if g[0] == 'ok' and nb[0] == 'ok' and nb2[0] == 'ok' and nb[1] > 0 and nb2[1] != nb[1] - 1:
                    out.append(('C10|transplant|delete_node through ../ not visible in the new parent', where + ": target.count('%s') %r -> %r" % (sid, nb[1], nb2[1])))
        if out:
            break
    seen = set(); res = []
    for k, m in out:
        if k not in seen:
            seen.add(k); res.append((k, m))
    return res


def prefix_cases():
    """delete_segment names ONE segment: with a sibling that extends it by one more element in the tree, each of the two
    must be deletable without touching the other"""
    out = []
    for doc, loop, inst in TRANSPLANT:
        t = _fresh(doc, loop)
        for a, I in enumerate(t.select(inst)):
            for ci, c in enumerate(I.children):
                if ci == 0 or c.type != 'seg':
                    continue
                for which in ('longer', 'shorter'):
                    out.append({'kind': 'prefix', 'doc': doc, 'loop': loop, 'inst': inst, 'a': a, 'child': ci, 'delete': which})
    return out


def run_prefix(case):
    import pyx12.segment
    t = _fresh(case['doc'], case['loop'])
    I = list(t.select(case['inst']))[case['a']]
    c = I.children[case['child']]
    short = c.seg_data.format()
    longer = short[:-1] + '*ZZ~'
    where = '%s %s #%d: %s with its extension %s added' % (case['doc'], case['inst'], case['a'] + 1, short, longer)
    before = _segs(I)
    st, r = call(lambda: I.add_segment(pyx12.segment.Segment(longer, '~', '*', ':')))
    if st == 'exc' or r is None:
        return []            # not addable here (BFS judges add_segment)
    mid = _segs(I)
    if sorted(mid) != sorted(before + [longer]):
        return []
    victim = longer if case['delete'] == 'longer' else short
    st, r = call(lambda: I.delete_segment(pyx12.segment.Segment(victim, '~', '*', ':')))
    if st == 'exc':
        return [('C10|delete_segment|raises %s@%s' % (type(r).__name__, core.where(r)), where + ': delete_segment(%s) raised %r' % (victim, r))]
    after = _segs(I)
    want = list(mid)
    want.remove(victim)
    if r is not True or after != want:
        gone = [x for x in mid if x not in after or mid.count(x) != after.count(x)]
        return [('C10|delete_segment|removes another segment than the one named', where + ': delete_segment(%s) returned %r and removed %r' % (victim, r, gone))]
    return []


def setpad_cases():
    """two-step edits of one segment: a value far beyond its end (which creates several empty positions in one go), then a
    component of one of those fresh positions -- every other position must stay as it is"""
    out = []
    for doc, loop, inst in TRANSPLANT:
        t = _fresh(doc, loop)
        for a, I in enumerate(t.select(inst)):
            seen = set()
            for ci, c in enumerate(I.children):
                if c.type != 'seg' or c.id in seen:
                    continue
                seen.add(c.id)
                for filler in (1, 2):
                    for comp in (1, 2):
                        out.append({'kind': 'setpad', 'doc': doc, 'loop': loop, 'inst': inst, 'a': a, 'child': ci, 'filler': filler, 'comp': comp})
    return out


def run_setpad(case):
    t = _fresh(case['doc'], case['loop'])
    I = list(t.select(case['inst']))[case['a']]
    c = I.children[case['child']]
    sid, els = parse_seg(c.seg_data.format())
    n = len(els)
    model = [list(x) for x in els]
    steps = [(n + 3, None, VAL), (n + case['filler'], case['comp'], 'Q7')]
    where = '%s %s #%d %s' % (case['doc'], case['inst'], case['a'] + 1, c.seg_data.format())
    for (e, k, v) in steps:
        pth = '%s%02d%s' % (sid, e, '-%d' % k if k else '')
        st, r = call(lambda: I.set_value(pth, v))
        if st == 'exc':
            return [('C10|set_value|raises %s@%s' % (type(r).__name__, core.where(r)), where + ": set_value('%s') raised %r" % (pth, r))]
        while len(model) < e:
            model.append([''])
        if k is None:
            model[e - 1] = [v]
        else:
            while len(model[e - 1]) < k:
                model[e - 1].append('')
            model[e - 1][k - 1] = v
        got = [x for x in _segs(I) if x.startswith(sid + '*')][0]
        want = fmt_seg(sid, model) + '~'
        if got != want:
            return [('C10|set_value|changes other positions of the segment', where + ": after set_value('%s', %r) the segment is %s, expected %s" % (pth, v, got, want))]
    return []


ADDLOOP_TREES = [('837p', '2000A'), ('837p', '2000B'), ('837p', '2300'), ('834', '2000')]


def _loops_of(t):
    out = [t]
    for c in t.children:
        if c.type == 'loop':
            out += _loops_of(c)
    return out


def addloop_cases():
    """add_loop on EVERY loop instance of the trees (root and descendants) with the opening segment of every child loop the
    map allows there: afterwards the children of that instance must still stand in map order (by the position of the map
    node each child was matched to) -- also where a loop's own position differs from that of its first segment (HL loops)"""
    out = []
    for doc, loop in ADDLOOP_TREES:
        t = _fresh(doc, loop)
        if t is None:
            continue
        for li, L in enumerate(_loops_of(t)):
            for gi, g in enumerate(_map_kids(L.x12_map_node)):
                if g.is_loop() and _map_kids(g) and _map_kids(g)[0].is_segment():
                    out.append({'kind': 'addloop', 'doc': doc, 'loop': loop, 'li': li, 'gi': gi})
    return out


def _map_kids(n):
    """children of a map loop node in map order (loops keep them by position)"""
    if hasattr(n, 'pos_map'):
        return [c for pos in sorted(n.pos_map) for c in n.pos_map[pos]]
    return list(n.children)


def _synth_impl(segnode):
    """a data segment that opens the loop: id plus, where the map qualifies the first element, its first valid code"""
    first = segnode.get_child_node_by_idx(0)
    v = 'A1'
    if first is not None and first.is_element() and getattr(first, 'valid_codes', None):
        v = first.valid_codes[0]
    elif first is not None and first.is_composite():
        sub0 = first.get_child_node_by_idx(0)
        v = (sub0.valid_codes[0] if getattr(sub0, 'valid_codes', None) else 'A1') + ':B2'
    if segnode.id == 'HL':
        return 'HL*9*1*%s*0~' % (segnode.get_child_node_by_idx(2).valid_codes[0] if segnode.get_child_node_by_idx(2).valid_codes else '22')
    return '%s*%s*B2~' % (segnode.id, v)


def run_addloop(case):
    import pyx12.segment
    t = _fresh(case['doc'], case['loop'])
    L = _loops_of(t)[case['li']]
    g = _map_kids(L.x12_map_node)[case['gi']]
    text = _synth_impl(_map_kids(g)[0])
    where = '%s tree %s, loop instance %d (%s): add_loop(%s) for %s' % (case['doc'], case['loop'], case['li'], L.id, text, g.id)
    pos0 = [c.x12_map_node.pos for c in L.children]
    if pos0 != sorted(pos0):
        return []
    st, r = call(lambda: L.add_loop(pyx12.segment.Segment(text, '~', '*', ':')))
    if st == 'exc' or r is None:
        return []          # not addable with this segment (BFS judges refusals)
    kids_ = [(c.x12_map_node.pos, c.id) for c in L.children]
    if r.id != g.id:
        return []          # the segment opened another loop than the one aimed at: positions still judged below
    if [p_ for p_, _ in kids_] != sorted(p_ for p_, _ in kids_):
        return [('C10|add_loop|children no longer in map order', where + ': children now at map positions %r' % (kids_,))]
    if len(kids_) != len(pos0) + 1:
        return [('C10|add_loop|wrong number of children', where + ': %d children before, %d after' % (len(pos0), len(kids_)))]
    return []


def _ediff(got, want):
    for i in range(max(len(got), len(want))):
        a = got[i] if i < len(got) else None
        b = want[i] if i < len(want) else None
        if a != b:
            return 'first difference at event %d: %r, expected %r (lengths %d vs %d)' % (i, a, b, len(got), len(want))
    return 'equal'


def copyreread_cases():
    return [{'kind': 'copyreread', 'doc': v['doc'], 'loop': v['loop']} for k, v in sorted(CFG.items())]


def run_copyreread(case):
    """copy() is a pure read of its original: after copying the tree and every loop below it, the original still has the
    event stream it had, every copy has the stream of its original, and a tree read afresh in the same process equals the
    first one (nothing shared between trees was written to).  Runs before the searches, in a process of its own."""
    where = '%s, iter_segments(%s)' % (case['doc'], case['loop'])
    try:
        t1 = _fresh(case['doc'], case['loop'])
        s1 = i_struct(t1)
        loops = [t1]
        k = 0
        while k < len(loops):
            loops += [c for c in loops[k].children if getattr(c, 'type', None) == 'loop']
            k += 1
        out = []
        for rnd in (1, 2):
            for n in loops:
                before = i_struct(n)
                st, K = call(lambda: n.copy())
                if st == 'exc':
                    return [('C10|copy-law|copy raises %s' % eclass(K), '%s: copy() of loop %s raised %r' % (where, n.id, K))]
                if i_struct(K) != before:
                    out.append(('C10|copy-law|copy differs from its original', '%s: the copy of loop %s has another event stream than its original: %s' % (where, n.id, _ediff(list(i_struct(K)), list(before)))))
                if i_struct(n) != before:
                    out.append(('C10|copy-law|original changed by copy()', '%s: loop %s has another event stream after copy() than before: %s' % (where, n.id, _ediff(list(i_struct(n)), list(before)))))
                if out:
                    return out[:2]
        if i_struct(t1) != s1:
            out.append(('C10|copy-law|original changed by copy()', '%s: the tree has another event stream after its loops were copied: %s' % (where, _ediff(list(i_struct(t1)), list(s1)))))
        t2 = _fresh(case['doc'], case['loop'])
        if i_struct(t2) != s1:
            out.append(('C10|copy-law|a tree read afterwards differs', '%s: the same document read again in this process, after copies were made of the first tree: %s' % (where, _ediff(list(i_struct(t2)), list(s1)))))
        return out[:2]
    except MemoryError:
        gc.collect()
        return [(MEMKEY, '%s: %s' % (where, MEMMSG))]


def work_transplant(cases):
    _bind()
    P = core.Part()
    for case in cases:
        P.n += 1
        P.out('%s|%s|%s' % (case['kind'], case['doc'], case.get('delete') or case.get('filler') or case.get('loop') if case['kind'] != 'transplant' else ('forward' if case['a'] < case['b'] else 'backward')))
        for k, m in (run_copyreread(case) if case['kind'] == 'copyreread' else run_prefix(case) if case['kind'] == 'prefix' else run_setpad(case) if case['kind'] == 'setpad' else run_addloop(case) if case['kind'] == 'addloop' else run_transplant(case)):
            P.bad(k, case, m)
    return P


def evaluate(case):
    if case.get('kind') == 'transplant':
        _bind()
        for name in CFG:
            setup(name)
        return run_transplant(case)
    if case.get('kind') == 'copyreread':
        _bind()
        for name in CFG:
            setup(name)
        return run_copyreread(case)
    if case.get('kind') in ('prefix', 'setpad', 'addloop'):
        _bind()
        for name in CFG:
            setup(name)
        return run_prefix(case) if case['kind'] == 'prefix' else run_setpad(case) if case['kind'] == 'setpad' else run_addloop(case)
    hist = [tup(e) for e in case['hist']]
    try:
        ms, im = replay(hist[:-1])
        viols, outcome = step(ms, im, hist[-1])
        if not viols:
            digest(ms, im)
    except MemoryError:
        ms = im = None
        gc.collect()
        return [(MEMKEY, MEMMSG)]
    return [(k, m) for k, m in viols]


def run(R):
    _bind()
    # the trees under test are a few hundred objects; a change that makes one of them grow without bound (a list doubled on every
    # copy ...) must end in a MemoryError inside the step that caused it -- which is then reported like any other exception --
    # not in a machine out of memory.  The limit is inherited by the forked workers.
    import resource
    lim = 6 << 30
    resource.setrlimit(resource.RLIMIT_AS, (lim, lim))
    if R.thorough:
        plan = [('837p:2300', 'wide', 2), ('834:2000', 'wide', 2), ('837p:2300', 'narrow', 4), ('834:2000', 'narrow', 4),
                ('837p:2000B/2300', 'narrow', 3), ('837p:2000B/2300', 'tiny', 4)]
    else:
        plan = [('837p:2300', 'wide', 1), ('834:2000', 'wide', 1), ('837p:2300', 'narrow', 3), ('834:2000', 'narrow', 3),
                ('837p:2000B/2300', 'narrow', 2)]
    # initial agreement between reader tree and hand-written model (a harness precondition, not a law)
    for name in CFG:
        setup(name)
        ms, im = replay([('init', name, 'wide', 0)])
        if i_ser(im.T) != m_flat(ms.T):
            R.harness_errors.append('initial tree of %s differs from the model: %s' % (name, diff_msg(i_ser(im.T), m_flat(ms.T))))
            return R.finish(LEVEL, 'n/a', exhaustive=False)
    # first, in a process of its own: copy() writes to nothing that trees share.  A violation here means that the state of a
    # process is corrupted by the very calls the searches make, so they are not run on top of it
    R.pmap(work_transplant, [[c] for c in copyreread_cases()])
    if R.total.viol:
        R.total.counters['searches not run: copy() corrupts state shared between trees (see the copy-law violations)'] += 1
        R.bounds = {'copy-law': 'only this family was run'}
        return R.finish(LEVEL, 'copy law only (violated)', exhaustive=False)
    stats = []
    for name, width, depth in plan:
        stats.append(search(R, name, width, depth, max_states=400000))
    R.cov['searches'] = stats
    tc = transplant_cases() + prefix_cases() + setpad_cases() + addloop_cases()
    R.pmap(work_transplant, core.chunks(tc, 8))
    R.cov['transplant_cases'] = len(tc)
    R.bounds = {
        'copy-law': 'for each of the three trees: copy() of the tree and of every loop below it, twice over; original, copies and a tree read afterwards keep the event stream of iterate_loop_segments',
        'addloop': 'add_loop on every loop instance (root and descendants) of the trees %r with the opening segment of every child loop its map node allows: the children must stay in map order' % (ADDLOOP_TREES,),
        'setpad': 'for every child segment of every instance of the repeated loops: set the element three positions past its end, then a component (1, 2) of each of the two positions created on the way -- nothing else may change',
        'prefix': 'for every non-anchor child segment of every instance of the repeated loops: add the same segment extended by one element, then delete_segment the longer / the shorter one -- exactly the named one must go',
        'transplant': 'every (source instance, other instance, non-anchor child) of the repeated loops %r: copy the child, add_node it to the other instance, then read (exists/count/get_value of every direct child segment id of both instances through ../), write and delete through ../ -- each law on a fresh tree' % (TRANSPLANT,),
        'trees': {k: 'iter_segments(%s) of document %s, edited node = %s' % (v['loop'], v['doc'], '/'.join(v['base']) or 'the tree root') for k, v in CFG.items()},
        'searches': ['%s alphabet=%s(%d events) depth=%d mutating calls + query battery at every state' % (n, w, len(alphabet(n, w)), d) for n, w, d in plan],
        'handles': 'tree, first child loop, anchor segment node, copy of tree, first child loop of the copy, copy of the child loop (one copy per history)',
        'values': [VAL, ''],
    }
    R.assumptions = [
        'qualifier elements (REF01, DTP01, HI01-1, ...) are never rewritten and no qualifier is put on a segment the map does not qualify: how an edited segment is re-bound is left open by the statement',
        'when several loop instances match a get_value/set_value path and the first instance lacks the segment, either the first-instance-only or the depth-first reading is accepted (counted as open)',
        'delete_segment equality up to trailing empty elements, and the protected "first segment" when the first child is a loop, are left open (counted)',
        'the parent of a detached copy of a non-root node is unspecified: "../" paths are not issued from it',
        'handles are re-acquired with first() before every call; stale node references and node.delete() on held references are outside the alphabet',
        'map objects are loaded once per process and shared between fresh readers (trees only read them)',
        'get_value on a path without element index may raise IndexError (pinned by test_get_seg_value_fail_no_element_index)',
    ]
    return R.finish(LEVEL, 'BFS over API call histories merged on (model tree, model copy, implementation loop/segment stream); '
                    'an outcome is distinct by (method, handle kind, result class)', exhaustive=True)
