"""seams into the real code (always the working tree under core.REPO)"""
import functools, io
from mc import core
core.bind_repo()
import pyx12.params, pyx12.map_if, pyx12.segment, pyx12.error_handler


def params(charset='E', exclude=None):
    p = pyx12.params.params()
    p.set('charset', charset)
    p.set('exclude_external_codes', exclude)
    return p


@functools.lru_cache(None)
def load_map(fname, charset='E', exclude=None, map_path=None):
    return pyx12.map_if.load_map_file(fname, params(charset, exclude), map_path)


def seg_nodes(m):
    return [n for n in m.loop_segment_iterator() if n.is_segment()]


def all_nodes(m):
    return list(m.loop_segment_iterator())


def mkseg(parts, st='~', et='*', sub=':'):
    return pyx12.segment.Segment(et.join(parts), st, et, sub)


def errh_list():
    return pyx12.error_handler.errh_list()
