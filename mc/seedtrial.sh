#!/bin/sh
# usage: mc/seedtrial.sh <worktree with the seeded change applied> <ID> [more IDs]   -- runs the quick checks against that tree
WT="$1"; shift
mkdir -p /tmp/seed/out
for id in "$@"; do
  echo "== $id against $WT"
  VERIF_REPO="$WT" VERIF_OUT=/tmp/seed/out "$(dirname "$0")/../check" "$id" 2>/dev/null | grep -v "^KNOWN-FINDING" | cut -c1-300 | tail -8
done
