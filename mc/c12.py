"""
C12 - validation results do not depend on delimiters or line layout (a metamorphic relation).

Space.  Documents: per map (one index entry per map file) the minimal conformant document and the
all-filled one, one document per C03 fault kind, and single structural mutants of the minimal document
(delete / duplicate / swap / retag-ZZZ / extra-elements / extra-components / an empty trailing element /
an empty trailing component, at the middle segment and at SE; thorough adds the first body segment) on
which validation completes.  Every document is reduced to a delimiter-free matrix [segment id, [[component, ...], ...]]
and re-encoded with every admissible (segment terminator, element separator, component separator,
line break) of
      {~, LF, !, FS, {} x {*, |, +, GS} x {:, >, backslash, %} x {none, LF, CRLF, CR}
admissible = the three delimiters do not occur in the data of that document, the line break shares no
character with them, and the component separator belongs to the declared character set (tables of the
C13 reference).  quick: the base encoding, every single-factor change and a greedy covering array of
all pairs of factor levels; thorough: all of them.  A subset is repeated under character set 'B'.

Oracle.  verdict, the SET of reported errors (level, code, interchange/group/set index, segment id and
position, element position, component position, offending value) and the body of the acknowledgement
(all segments other than ISA/GS/ST/SE/GE/IEA/TA1, tokenised with the acknowledgement's own header
delimiters) equal those of the (~ * : no line break) encoding of the same matrix.  Where an offending
value is an element that carries component separators (it then legitimately contains a delimiter of the
encoding) the comparison is made modulo the rendering of that separator, in the tree and in AK404/IK404.

Per document only the failing encodings with the fewest changed factors are reported; a key names what
differs (raises / verdict / errors / ack body, the most significant one) and the changed factors.
"""
import functools, itertools
from mc import core, corpus, ref

ID = 'C12'
LEVEL = 'model_checking'

SEGS = ('~', '\n', '!', '\x1c', '{')
ELES = ('*', '|', '+', '\x1d')       # incl. a control-character separator; '*' may also be the COMPONENT separator when the element separator is another character
SUBS = (':', '>', '\\', '%', '*', '<')          # % and { are format / template characters of the implementation language
EOLS = ('', '\n', '\r\n', '\r')
BASE = ('~', '*', ':', '')
FACTOR = ('seg', 'ele', 'sub', 'eol')
NAMES = {'': 'none', '\n': 'LF', '\r\n': 'CRLF', '\r': 'CR', '\x1c': 'FS', '\x1d': 'GS', '\\': 'backslash'}
ENVELOPE = ('ISA', 'GS', 'ST', 'SE', 'GE', 'IEA', 'TA1')
MUT_OPS = ('delete', 'duplicate', 'swap', 'retag-ZZZ', 'extra-elements', 'extra-components')      # from corpus.mutations
OWN_OPS = ('trailing-element', 'trailing-component', 'lone-separator', 'control-char', 'caret-in-long-value', 'missing-id', 'empty-piece')                                            # made here, on the matrix
CHARSET_B_MAPS = ('834.4010.X095.A1.xml', '837.4010.X098.A1.xml', '835.5010.X221.A1.xml', '999.5010.xml')


# ----- the document matrix and its encodings ------------------------------------------------------------
def matrix_of(text):
    """delimiter-free form of a text written in its header's delimiters: [[id, [[comp, ...], ...]], ...]"""
    toks, d = ref.tokenize(text)
    return [[t.id, [list(c) for c in t.eles]] for t in toks if t.id is not None]


def encode(matrix, enc):
    """written from the X12 framing rules; ISA16 declares the component separator"""
    seg, ele, sub, eol = enc
    out = []
    for k, (sid, eles) in enumerate(matrix):
        if sid == 'ISA':
            parts = [sid] + [sub.join(c) if k else c[0] for c in eles]
            if len(parts) == 17:
                parts[16] = sub
        else:
            parts = [sid] + [sub.join(c) for c in eles]
        out.append(ele.join(parts) + seg + eol)
    return ''.join(out)


def icvn_of(matrix):
    if matrix and matrix[0][0] == 'ISA' and len(matrix[0][1]) >= 12:
        return matrix[0][1][11][0]
    return None


def data_chars(matrix):
    """every character that occurs as data (ISA16, which declares the component separator, is not data)"""
    cs = set()
    for sid, eles in matrix:
        cs |= set(sid)
        for i, comps in enumerate(eles):
            if sid == 'ISA' and i == 15 and len(eles) == 16:
                continue
            for c in comps:
                cs |= set(c)
    return cs


def sub_table(charset, icvn):
    from mc import c13
    if charset == 'B':
        return c13.BASIC
    return c13.EXT5 if icvn == '00501' else c13.EXT


def levels_for(matrix, charset):
    """admissible levels per factor, or (None, reason)"""
    cs = data_chars(matrix)
    if cs & set('\r\n'):
        return None, 'data contain CR/LF'
    if set(BASE[:3]) & cs:
        return None, 'data contain a base delimiter'
    table = sub_table(charset[0], icvn_of(matrix))
    if BASE[2] not in table:
        return None, 'base component separator outside the character set'
    segs = tuple(c for c in SEGS if c not in cs)
    eles = tuple(c for c in ELES if c not in cs)
    subs = tuple(c for c in SUBS if c not in cs and c in table)
    return (segs, eles, subs), None


def legal(enc):
    s, e, c, l = enc
    return len(set((s, e, c))) == 3 and not (set(l) & set((s, e, c)))


@functools.lru_cache(None)
def all_encodings(levels):
    segs, eles, subs = levels
    return tuple(v for v in itertools.product(segs, eles, subs, EOLS) if legal(v))


def pairs_of(v):
    return [((i, v[i]), (j, v[j])) for i in range(4) for j in range(i + 1, 4)]


@functools.lru_cache(None)
def quick_encodings(levels):
    """base + all single-factor changes + greedy (deterministic) completion to a pairwise covering array"""
    allv = all_encodings(levels)
    chosen = [BASE] + [v for v in allv if changed(v) and len(changed(v)) == 1]
    need = set(p for v in allv for p in pairs_of(v))
    need -= set(p for v in chosen for p in pairs_of(v))
    while need:
        best = None; gain = 0
        for v in allv:
            g = len([p for p in pairs_of(v) if p in need])
            if g > gain:
                best, gain = v, g
        chosen.append(best)
        need -= set(pairs_of(best))
    return tuple(chosen)


def changed(enc):
    return [i for i in range(4) if enc[i] != BASE[i]]


def enc_name(enc):
    ch = changed(enc)
    if not ch:
        return 'base'
    return ','.join('%s=%s' % (FACTOR[i], NAMES.get(enc[i], enc[i])) for i in ch)


# ----- observation ----------------------------------------------------------------------------------
def ack_body(ack):
    """tokenised acknowledgement without envelope/TA1 lines; None when nothing was written"""
    if not ack:
        return None
    if ref.header_ok(ack):
        toks, d = ref.tokenize(ack)
        segs = [[t.id] + [tuple(c) for c in t.eles] for t in toks if t.id is not None]
    else:
        from mc import pipe
        segs = [[s[0]] + [tuple(x.split(':')) for x in s[1:]] for s in pipe.ack_segments(ack)]
    return tuple(tuple(s) for s in segs if s[0] not in ENVELOPE)


def observe(text, charset):
    from mc import pipe
    pipe.stub_clock()
    # 'E*': every output requested (acknowledgement, HTML report, XML); what is compared stays the same
    o = pipe.run(text, sinks=(('ack', 'html', 'xml') if charset.endswith('*') else ('ack',)), charset=charset[0], want_nodes=False)
    exc = '%s@%s' % (o.exc, o.exc_where) if o.exc else None
    errs = frozenset(o.errors) if o.errors is not None else None
    return {'verdict': o.verdict, 'exc': exc, 'tree_exc': o.tree_exc, 'errors': errs, 'ack': ack_body(o.ack),
            'ack_delims': (ref.delims(o.ack) if o.ack and ref.header_ok(o.ack) else None)}


def norm_values(errs, sub):
    """errors with the component separator of the encoding replaced by ':' inside offending values"""
    if errs is None:
        return None
    return frozenset(e[:9] + (e[9].replace(sub, ':') if isinstance(e[9], str) else e[9],) for e in errs)


def compare(b, o, enc, charset):
    """-> (list with at most one (key, msg): the most significant difference, note or None).
    Keys name what differs and which factors were changed (levels and charset are in the message / case)."""
    tag = ','.join(FACTOR[i] for i in changed(enc))
    here = '%s, charset %s' % (enc_name(enc), charset)
    if o['exc'] != b['exc']:
        return [('C12|raises %s|%s' % (o['exc'], tag), '[%s] validation raises %s, base encoding: %s' % (here, o['exc'], b['exc']))], None
    if o['tree_exc'] != b['tree_exc']:
        return [('C12|tree %s|%s' % (o['tree_exc'], tag), '[%s] reading the error tree: %s, base encoding: %s' % (here, o['tree_exc'], b['tree_exc']))], None
    if o['verdict'] != b['verdict']:
        be = b['errors'] or frozenset(); oe = o['errors'] or frozenset()
        return [('C12|verdict|%s' % tag, '[%s] verdict %r, base encoding %r; errors only base %r; only here %r'
                 % (here, o['verdict'], b['verdict'], sorted(be - oe, key=repr)[:3], sorted(oe - be, key=repr)[:3]))], None
    loose = None
    ba = b['ack'] or (); oa = o['ack'] or ()
    if o['errors'] != b['errors']:
        if norm_values(o['errors'], enc[2]) == b['errors']:
            # the offending value is an element carrying component separators (a composite, or a simple element with
            # too many components): it legitimately contains a delimiter of the encoding, so its rendering - and its
            # copy in AK404/IK404 - is left open; everything else is still compared
            loose = 'offending value carries the component separator: compared modulo its rendering (tree and AK404/IK404)'
            ba = plain_echo(ba, enc[2]); oa = plain_echo(oa, enc[2])
        else:
            be = b['errors'] or frozenset(); oe = o['errors'] or frozenset()
            lost = sorted(be - oe, key=repr); new = sorted(oe - be, key=repr)
            return [('C12|errors|%s' % tag, '[%s] errors differ from the base encoding: only base %r; only here %r' % (here, lost[:3], new[:3]))], None
    if o.get('ack_delims') != b.get('ack_delims'):
        # the body is compared token by token, so the characters it is written with are compared separately: the
        # acknowledgement has delimiters of its own, which must not follow those of the document acknowledged
        return [('C12|ack delimiters|%s' % tag, '[%s] the acknowledgement is written with delimiters %r, for the base encoding with %r' % (here, o.get('ack_delims'), b.get('ack_delims')))], loose
    if oa != ba:
        d = [(x, y) for x, y in itertools.zip_longest(ba, oa) if x != y][:2]
        return [('C12|ack body|%s' % tag, '[%s] acknowledgement body differs (%d vs %d lines): first differences base/here %r' % (here, len(ba), len(oa), d))], loose
    return [], loose


def plain_echo(body, sub):
    """acknowledgement body with the copies of offending values (AK404 / IK404) freed of component separators"""
    return tuple(s[:4] + tuple((''.join(e).replace(sub, ''),) for e in s[4:]) if s[0] in ('AK4', 'IK4') else s for s in body)


BASE_INFO = [False, False]     # facts about the last base run, for the vacuity counters


def judge_doc(matrix, charset, encs, P=None):
    """run base + encs; -> (list of (enc, key, msg) for the failing encodings with the fewest changed factors, skip)"""
    b = observe(encode(matrix, BASE), charset)
    if P is not None:
        P.n += 1
    if b['exc']:
        return [], 'validation does not complete in the base encoding (C07 domain): ' + b['exc']
    BASE_INFO[0] = bool(b['errors'])
    BASE_INFO[1] = any(s[0] in ('AK3', 'AK4', 'IK3', 'IK4') for s in (b['ack'] or ()))
    found = []
    for enc in encs:
        if enc == BASE:
            continue
        o = observe(encode(matrix, enc), charset)
        if P is not None:
            P.n += 1
        v, skip = compare(b, o, enc, charset)
        if skip and P is not None:
            P.counters['encodings where the ' + skip] += 1
        for k, m in v:
            found.append((enc, k, m))
    if found:
        least = min(len(changed(e)) for e, _, _ in found)
        if P is not None:
            P.counters['failing encodings'] += len(set(e for e, _, _ in found))
        found = [f for f in found if len(changed(f[0])) == least]
    return found, None


def evaluate(case):
    matrix = case['matrix']; charset = case.get('charset', 'E'); enc = tuple(case['enc'])
    lv, why = levels_for(matrix, charset)
    if lv is None or not legal(enc) or enc[0] not in lv[0] or enc[1] not in lv[1] or enc[2] not in lv[2]:
        return []
    b = observe(encode(matrix, BASE), charset)
    if b['exc']:
        return []
    v, skip = compare(b, observe(encode(matrix, enc), charset), enc, charset)
    return v


# ----- corpus --------------------------------------------------------------------------------------------
ITEMS = []      # (label, family, kind, matrix, charset)


def positions(n, thorough):
    """fixed mutation positions in a minimal document of n segments: middle and SE; thorough adds the first body segment"""
    return sorted(set(([3] if thorough else []) + [n // 2, n - 3]))


def mutants(text, thorough):
    """single structural mutants of a base-encoded text -> (label, matrix)"""
    base = matrix_of(text)
    pos = positions(len(base), thorough)
    want = set('%s@%d' % (op, i) for op in MUT_OPS for i in pos)
    for lab, mt in corpus.mutations(text):
        if ':' in lab and lab.partition(':')[0] in want:
            yield lab, matrix_of(mt)
    for i in pos:
        sid, eles = base[i]
        # an empty element after the last one: the segment ends with an element separator
        yield 'trailing-element@%d:%s' % (i, sid), base[:i] + [[sid, [list(c) for c in eles] + [['']]]] + base[i + 1:]
        # an empty component after the last one: the segment ends with a component separator
        if eles:
            yield 'trailing-component@%d:%s' % (i, sid), base[:i] + [[sid, [list(c) for c in eles[:-1]] + [list(eles[-1]) + ['']]]] + base[i + 1:]
        # an element that consists of nothing but a component separator (two empty components), first and last position
        if eles:
            for k in sorted(set([0, len(eles) - 1])):
                yield 'lone-separator@%d:%s%02d' % (i, sid, k + 1), base[:i] + [[sid, [list(c) for c in eles[:k]] + [['', '']] + [list(c) for c in eles[k + 1:]]]] + base[i + 1:]
        # a control character inside a value: the validator names it with a placeholder (<HT>) in the offending value, which
        # must read the same whatever the delimiters are (also when < or > is one of them)
        if eles:
            k = len(eles) - 1
            yield 'control-char@%d:%s%02d' % (i, sid, k + 1), base[:i] + [[sid, [list(c) for c in eles[:k]] + [['A\tB']]]] + base[i + 1:]
        # an over-long value that contains a delimiter of the ACKNOWLEDGEMENT (^ is the repetition separator the 999 is written
        # with, and an ordinary character of a 00401 document): however it is copied into AK404 / IK404, it is copied the
        # same way whatever the delimiters of the document are
        if eles:
            k = len(eles) - 1
            yield 'caret-in-long-value@%d:%s%02d' % (i, sid, k + 1), base[:i] + [[sid, [list(c) for c in eles[:k]] + [['A^B' + 'C' * 300]]]] + base[i + 1:]
        # a segment whose identifier is missing: the piece begins with the element separator (which may be a control
        # character that str methods count as whitespace)
        if eles:
            yield 'missing-id@%d:%s' % (i, sid), base[:i] + [['', [list(c) for c in eles]]] + base[i + 1:]
        # an empty piece (a doubled terminator) after the segment: not a segment in any encoding, with or without line breaks
        yield 'empty-piece@%d:%s' % (i, sid), base[:i + 1] + [['', []]] + base[i + 1:]


def materialise(thorough):
    """enumerate the whole corpus once in the parent; the forked workers index into ITEMS.  Returns harness complaints."""
    if ITEMS:
        return []
    bad = []
    ents = corpus.one_entry_per_map()
    probe = (BASE, ('\n', '|', '>', '\r'), ('!', '+', '\\', '\r\n'), ('\x1c', '|', ':', '\n'))
    docs = []
    for it in corpus.valid_docs(False, ents):
        name = it[0].split(':')[2]
        if name in ('min', 'all-filled'):
            docs.append((it[0], 'valid', name, it[1]))
    for it in corpus.fault_docs(False, ents):
        docs.append((it[0], 'fault', it[0].split(':')[2], it[1]))
    for lab, fam, kind, d in docs:
        m = matrix_of(d.text())
        # two independent encoders must agree (Doc.text is the generator's, encode() is this module's)
        for enc in probe:
            if encode(m, enc) != d.text(*enc):
                bad.append('encoders disagree on %s for %r' % (lab, enc))
                break
        ITEMS.append((lab, fam, kind, m, 'E'))
        if d.entry[4] in CHARSET_B_MAPS or (fam == 'valid' and kind == 'min'):
            ITEMS.append((lab, fam, kind, m, 'B'))
        if (fam == 'valid' and kind == 'min') or (fam == 'fault' and d.entry[4] in CHARSET_B_MAPS and kind in ('too-long', 'unknown-id', 'outside-code-list')):
            # the same comparison with every output requested: the other writers see the delimiters too
            ITEMS.append((lab, fam, kind, m, 'E*'))
        if fam == 'valid' and kind == 'min':
            for ml, mm in mutants(d.text(), thorough):
                ITEMS.append(('mutant:%s:%s' % (d.entry[4], ml), 'mutant', ml.split('@')[0], mm, 'E'))
                if d.entry[4] in CHARSET_B_MAPS:
                    ITEMS.append(('mutant:%s:%s' % (d.entry[4], ml), 'mutant', ml.split('@')[0], mm, 'B'))
    # documents longer than the reader's 8 KiB buffer, slid character by character across the refill boundaries:
    # line layout must not matter wherever a terminator / CR / LF falls relative to a read boundary
    e834 = [e for e in ents if e[4] == '834.4010.X095.A1.xml']
    if e834:
        big = corpus.build_ok(e834[0], {'sets': 85})
        if big is not None:
            m0 = matrix_of(big.text())
            k = [i for i, s in enumerate(m0) if s[0] == 'BGN'][0]
            for pad in range(0, 48 if thorough else 30):
                m = [[sid, [list(c) for c in eles]] for sid, eles in m0]
                m[k][1][1] = ['A' * (1 + pad)]
                ITEMS.append(('boundary:834.4010.X095.A1.xml:pad%d' % pad, 'boundary', 'pad', m, 'E'))
    return bad


BOUNDARY_ENCS = [('~', '*', ':', '\n'), ('~', '*', ':', '\r\n'), ('~', '*', ':', '\r'), ('!', '|', '>', '\r\n')]


def work(shard):
    part, nparts, thorough = shard
    P = core.Part()
    for i in range(part, len(ITEMS), nparts):
        lab, fam, kind, matrix, charset = ITEMS[i]
        lv, why = levels_for(matrix, charset)
        if lv is None:
            P.counters['skipped documents: ' + why] += 1
            continue
        encs = all_encodings(lv) if thorough else quick_encodings(lv)
        if fam == 'boundary':
            encs = BOUNDARY_ENCS
        found, skip = judge_doc(matrix, charset, encs, P)
        if skip:
            P.counters['skipped documents: ' + skip] += 1
            continue
        P.counters['documents'] += 1
        P.counters['documents whose base run reports %s' % ('errors' if found is not None and BASE_INFO[0] else 'no error')] += 1
        if BASE_INFO[1]:
            P.counters['documents whose acknowledgement body itemises errors (AK3/AK4/IK3/IK4)'] += 1
        P.counters['encodings per document: %d' % len(encs)] += 1
        P.out('%s|%s|%s' % (fam, kind, charset))
        for enc, k, m in found:
            P.bad(k, {'label': lab, 'charset': charset, 'enc': list(enc), 'matrix': matrix}, '%s %s' % (lab, m))
        if not found and i % 97 == 0:
            P.sample({'label': lab, 'charset': charset, 'segments': len(matrix), 'encodings': len(encs)}, cap=1)
    return P


def run(R):
    for b in materialise(R.thorough):
        R.harness_errors.append(b)
    fams = {}
    for it in ITEMS:
        k = '%s/%s' % (it[1], it[4]); fams[k] = fams.get(k, 0) + 1
    R.cov['documents_per_family_and_charset'] = fams
    full = all_encodings((SEGS, ELES, SUBS))
    R.cov['encodings_full_product'] = len(full)
    R.cov['encodings_quick'] = [enc_name(v) for v in quick_encodings((SEGS, ELES, SUBS))]
    nparts = 128
    R.pmap(work, [(p, nparts, R.thorough) for p in range(nparts)])
    R.total.states = R.total.counters.get('documents', 0)
    R.total.transitions = R.total.n
    R.bounds = {'boundary': 'an 85-set 834 (about 19 KB, beyond two 8 KiB refills) with one element lengthened by 0..%d characters, so that every terminator / CR / LF position relative to the read boundaries occurs, x 4 line-break encodings' % (47 if R.thorough else 29),
                'documents': 'per map file (%d): minimal and all-filled conformant document, one document per C03 fault kind, '
                             '%d structural operators (%s) at %s of the minimal document'
                             % (len(corpus.one_entry_per_map()), len(MUT_OPS + OWN_OPS), ', '.join(MUT_OPS + OWN_OPS),
                                '3 positions (first body segment, middle, SE)' if R.thorough else '2 positions (middle, SE)'),
                'encodings': '{~,LF,!,FS,{} x {*,|,+,GS(0x1d)} x {:,>,backslash,percent} x {none,LF,CRLF,CR}, delimiters absent from the data, line break disjoint '
                             'from the delimiters, component separator in the declared character set: %d for charset E; ' % len(full)
                             + ('all of them' if R.thorough else 'base + every single-factor change + greedy pairwise covering array (%d)' % len(quick_encodings((SEGS, ELES, SUBS)))),
                'outputs': 'acknowledgement only; and (charset E*) acknowledgement + HTML report + XML for every minimal document and three fault kinds of 4 maps',
                'charset': "E for every document; B (component separator ':' only) for every minimal document and all documents of %s" % ', '.join(CHARSET_B_MAPS)}
    R.assumptions = ['documents on which validation raises in the base encoding are C07 matters and skipped (counted)',
                     'ISA16 is the declared component separator and not data; ISA11 (repetition separator / standards id) is kept fixed',
                     'set index = ordinal of interchange, group and set in the error tree; the acknowledgement is tokenised with the delimiters of its own header',
                     "for charset B only ':' is an admissible component separator ('>' and backslash are outside the basic set): other triples are not run",
                     'an offending value that carries component separators (a composite, or a simple element given several components) is compared '
                     'modulo the rendering of that separator, in the tree and in AK404/IK404, because it legitimately contains a delimiter of the encoding (counted)']
    return R.finish(LEVEL, 'one (document, encoding) per execution, compared with the base encoding of the same document; distinct = (family, plan / fault kind / mutation operator, charset)',
                    exhaustive=True)
