"""entry point: ./check <ID> [--tier quick|thorough] [--replay file]"""
import os, sys, json, importlib
sys.path.insert(0, os.path.dirname(os.path.dirname(os.path.abspath(__file__))))
from mc import core


def main(argv):
    if not argv:
        print(__doc__)
        return 2
    pid = argv[0].upper()
    tier = os.environ.get('VERIF_TIER', 'quick')
    replay = None
    i = 1
    while i < len(argv):
        if argv[i] == '--tier':
            tier = argv[i + 1]; i += 2
        elif argv[i] == '--replay':
            replay = argv[i + 1]; i += 2
        else:
            print('unknown argument', argv[i]); return 2
    if tier not in ('quick', 'thorough'):
        tier = 'quick'
    try:
        seed = int(os.environ.get('VERIF_SEED', '0'))
    except ValueError:
        seed = 0
    core.bind_repo()
    mod = importlib.import_module('mc.' + pid.lower())
    if replay:
        art = json.load(open(replay))
        r1 = mod.evaluate(art['case'])
        r2 = mod.evaluate(art['case'])
        if sorted(r1) != sorted(r2):
            sys.stderr.write('HARNESS ERROR: replay is not deterministic\n')
            return 2
        keys = [k for k, _ in r1]
        for k, m in r1:
            print('  observed: %s  %s' % (k, m))
        if art['key'] in keys:
            print('VIOLATION property=%s replay=%s' % (pid, replay))
            return 1
        print('replay: recorded violation %s does not occur on this tree' % art['key'])
        return 0
    R = core.Run(mod, tier, seed)
    return mod.run(R)


if __name__ == '__main__':
    sys.exit(main(sys.argv[1:]))
