"""
C20 - the command-line normaliser preserves content, is idempotent and repairs counts.

Seam: pyx12.scripts.x12norm.main() called in-process with sys.argv patched, the input given as a file
path in a per-execution scratch directory (removed afterwards), stdout captured.

Space (product enumeration, no sampling):
  documents   hand-built minimal interchanges + every `source` of pyx12.test.x12testdata.datafiles,
              each as shipped ('asis') and with every count field set to the reference recount ('clean')
  layouts     as shipped | no line breaks | LF after every terminator | CRLF after every terminator | blank fill after every terminator
  delimiters  as shipped | foreign triples (character-for-character substitution)
  defects     on the clean base: IEA01/GE01/SE01/HL01 in {true+1, true-1, 'x', '', zero-padded true} at every
              trailer / HL, singly and in pairs; HL01 of a set shifted / swapped / reversed
  options     {eol} x {fix counting} x {stdout, -o FILE, -i}     (12)

Oracle (from the statement, reference tokenizer ref.tokenize, recount ref.recount + truth() below):
  1. output tokenises to the same segments, values and delimiters as the input (trailing empty elements /
     components trimmed = the documented normalisation); under -f the four count fields are exempt;
  2. under -e every segment terminator is followed by exactly one LF and the next segment starts there;
  3. running the normaliser again on its output (same options, same destination kind) reproduces it byte for byte;
  4. under -f, when the reference says the input nests properly and its only defects are wrong
     IEA01/GE01/SE01/HL01, the output re-read with X12Reader pops no envelope error, the reference
     recount of the output finds none, every wrong field now equals the recount, every correct field
     is untouched.
"""
import io, os, sys, shutil, tempfile, itertools, logging
from mc import core, ref

ID = 'C20'
LEVEL = 'exploration'

ENV = {'isa': {'001', '021', '025', '023', '024'}, 'gs': {'3', '4', '5', '6'}, 'st': {'2', '3', '4', '23'}, 'seg': {'HL1', 'HL2', 'LX'}}
FIXABLE = {('isa', '021'), ('gs', '5'), ('st', '4'), ('seg', 'HL1')}
COUNTED = ('IEA', 'GE', 'SE', 'HL')
SCRATCH = os.environ.get('VERIF_SCRATCH', '/dev/shm')
DESTS = ('stdout', 'ofile', 'inplace')
OPTS = [(e, f, d) for e in (0, 1) for f in (0, 1) for d in DESTS]
STD = ('~', '*', ':')
FOREIGN_Q = [('!', '|', '>'), ('\n', '|', '>'), ('\x1c', '\x1d', '\x1e')]        # incl. the FS/GS/RS control characters (str methods count them as whitespace)
FOREIGN_T = [('!', '|', '>'), ('\n', '|', '>'), ('\x1c', '\x1d', '\x1e'), ('+', '&', '\\')]
LAYOUTS = ('orig', 'none', 'lf', 'crlf', 'fill')      # fill: blank-filled fixed-length records (three blanks after every terminator, no line break)


# ----- corpus ---------------------------------------------------------------------------------------
def mini(n_isa, n_gs, n_st, hl, icvn='00401', quirk=None):
    """a small interchange with correct counts: n_isa x n_gs x n_st envelopes, `hl` HL segments per set"""
    out = []
    gid = 0
    for i in range(1, n_isa + 1):
        ctl = '%09d' % i
        out.append(ref.isa(icvn, ctl=ctl))
        for g in range(1, n_gs + 1):
            gid += 1
            out.append('GS*HC*S*R*20040608*1333*%d*X*004010X098A1~' % gid)
            for s in range(1, n_st + 1):
                body = ['BHT*0019*00*1*20040608*1333*CH']
                parents = {1: '', 2: '1', 3: '2', 4: '1', 5: '4'}
                for h in range(1, hl + 1):
                    body.append('HL*%d*%s*2%d*%d' % (h, parents[h], h, 1 if h < hl else 0))
                    body.append('NM1*85*2*N%d' % h)
                if quirk == 'shapes':
                    body += ['CLM*A*1***11:B:1*Y', 'REF*A*B**', ' REF*C*D', 'SV1*HC:99213::*1*UN', 'AAA*',
                             'N3*100 MAIN ST ', ' NM1*41*2*ACME *****46*TGJ23 ', '  REF*E*F :G ', 'N3*123 MAIN ST*          ', 'DMG*D8*19700101* ',
                             'REF*G* : ']
                elif quirk == 'lsle':
                    # bounded loops: LS / LE are ordinary segments of the set as far as the counts go (balanced, nested, and unbalanced)
                    body += ['LS*2120', 'NM1*P3*1*A', 'LE*2120', 'LS*1', 'LS*2', 'NM1*P3*1*B', 'LE*2', 'LE*1', 'LX*1', 'LE*9', 'LS*7']
                elif quirk == 'hl2':
                    body += ['HL*%d*9*22*0' % (hl + 1)]
                st = '%04d' % (1 if quirk == 'dupst' else s)
                se2 = '9999' if quirk == 'se2' else st
                out.append('ST*837*%s~' % st)
                out += [b + '~' for b in body]
                out.append('SE*%d*%s~' % (len(body) + 2, se2))
            out.append('GE*%d*%d~' % (n_st, gid))
        if quirk != 'noiea':
            out.append('IEA*%d*%s~' % (n_gs, ctl))
    return ''.join(out)


MINIS = [(1, 1, 1, 0), (1, 1, 1, 1), (1, 1, 1, 3), (1, 1, 1, 5), (1, 1, 2, 0), (1, 1, 2, 3), (1, 2, 1, 0), (1, 2, 1, 3),
         (2, 1, 1, 0), (2, 1, 1, 3), (1, 2, 2, 3), (2, 2, 2, 1)]

_CORPUS = None


def corpus():
    global _CORPUS
    if _CORPUS is None:
        c = {}
        for m in MINIS:
            c['m%d%d%d%d' % m] = mini(*m)
        c['m1113:5010'] = mini(1, 1, 1, 3, '00501')
        c['m1121:5010'] = mini(1, 1, 2, 1, '00501')
        for q in ('shapes', 'hl2', 'dupst', 'se2', 'noiea', 'lsle'):
            c['m1122:' + q] = mini(1, 1, 2, 2, quirk=q)
        # an interchange without any functional group (a TA1-only acknowledgement, IEA*0) next to a grouped one
        lone = ref.isa('00401', ctl='000000007') + 'TA1*000000001*040608*1333*A*000~' + 'IEA*0*000000007~'
        c['m1111+nogs'] = mini(1, 1, 1, 1) + lone
        c['nogs+m1211'] = lone + mini(1, 2, 1, 1)
        c['m2111+nogs'] = mini(2, 1, 1, 1).replace('000000002', '000000003') + lone
        from pyx12.test.x12testdata import datafiles
        for k in sorted(datafiles):
            if 'source' in datafiles[k]:
                c['s:' + k] = datafiles[k]['source']
        _CORPUS = c
    return _CORPUS


# ----- document surgery (input construction only; the oracle re-tokenises the final text) -------------
class Doc(object):
    """text split into pieces: (leading CR/LF, leading blanks, [fields]) + unterminated tail"""

    def __init__(self, text):
        self.d = ref.delims(text)
        seg, ele, sub = self.d
        raw = text.split(seg)
        self.tail = raw.pop()
        self.pieces = []
        for p in raw:
            q = p.lstrip('\r\n')
            nl = p[:len(p) - len(q)]
            r = q.lstrip(' ')
            sp = q[:len(q) - len(r)]
            self.pieces.append([nl, sp, r.split(ele)])

    def segs(self):
        """[(piece index, [id, e1, ...])] for the non-empty pieces"""
        return [(i, p[2]) for i, p in enumerate(self.pieces) if p[2] != ['']]

    def text(self, layout='orig', delims=None):
        seg, ele, sub = self.d
        out = []
        for i, (nl, sp, f) in enumerate(self.pieces):
            if layout == 'fill':
                nl = ''
                sp = sp if (i == 0 or sp) else '   '
            elif layout != 'orig':
                nl = '' if (i == 0 or layout == 'none') else ('\n' if layout == 'lf' else '\r\n')
            out.append(nl + sp + ele.join(f) + seg)
        tail = self.tail
        if layout != 'orig':
            tail = '' if layout in ('none', 'fill') else ('\n' if layout == 'lf' else '\r\n')
        t = ''.join(out) + tail
        if delims and tuple(delims) != self.d:
            t = redelim(t, self.d, tuple(delims))
        return t


def redelim(text, old, new):
    """character-for-character change of the delimiter triple; None if a new delimiter occurs as data"""
    fresh = [n for n in new if n not in old]
    # CR/LF only ever occur as layout in the texts handed in, so a LF terminator is usable
    if any(n in text for n in fresh if n not in '\r\n'):
        return None
    if any(n in '\r\n' for n in fresh) and ('\n' in text or '\r' in text):
        return None
    m = {o: n for o, n in zip(old, new)}
    return ''.join(m.get(c, c) for c in text)


def truth(segs):
    """true value of every count field: {index in segs: int}; None for HL outside a transaction set.
    Written from the statement (IEA01 = groups, GE01 = sets, SE01 = segments ST..SE, HL01 = 1,2,3.. per set)"""
    t = {}
    gs_n = st_n = seg_n = hl_n = 0
    in_set = False
    for i, s in enumerate(segs):
        k = s[0]
        if k == 'ISA': gs_n = 0
        elif k == 'GS': gs_n += 1; st_n = 0
        elif k == 'ST': st_n += 1; seg_n = 1; hl_n = 0; in_set = True
        elif k == 'SE': t[i] = seg_n + 1; in_set = False
        elif k == 'GE': t[i] = st_n
        elif k == 'IEA': t[i] = gs_n
        else:
            seg_n += 1
            if k == 'HL':
                hl_n += 1
                t[i] = hl_n if in_set else None
    return t


def setf(fields, val):
    while len(fields) < 2:
        fields.append('')
    fields[1] = val


def base_doc(name, base):
    """-> (Doc, sites) ; sites = [(piece index, seg id, true value, set-ordinal)] of the count fields.
    base 'clean': every count field rewritten to its true value first"""
    doc = Doc(corpus()[name])
    ss = doc.segs()
    tv = truth([f for _, f in ss])
    sites = []
    setno = 0
    for j, (pi, f) in enumerate(ss):
        if f[0] == 'ST':
            setno += 1
        if j in tv and tv[j] is not None:
            sites.append((pi, f[0], tv[j], setno))
            if base == 'clean':
                setf(doc.pieces[pi][2], str(tv[j]))
    return doc, sites


VALS = ('+1', '-1', 'x', '', 'pad')


def value(kind, true):
    return {'+1': str(true + 1), '-1': str(true - 1), 'x': 'x', '': '', 'pad': '0' + str(true)}[kind]


def injections(sites, mode):
    """lists of [site number, value string]; mode: 'none' | 'single' | 'single+group' | 'pairs'"""
    if mode == 'none':
        return
    n = len(sites)
    if mode in ('single', 'single+group'):
        for i in range(n):
            for k in VALS:
                yield [[i, value(k, sites[i][2])]]
    if mode == 'single+group':
        sets = {}
        for i, s in enumerate(sites):
            if s[1] == 'HL':
                sets.setdefault(s[3], []).append(i)
        for k, idx in sorted(sets.items()):
            yield [[i, str(sites[i][2] + 1)] for i in idx]                      # shifted
            if len(idx) > 1:
                yield [[i, str(sites[j][2])] for i, j in zip(idx, reversed(idx))]   # reversed
            for a, b in zip(idx, idx[1:]):
                yield [[a, str(sites[b][2])], [b, str(sites[a][2])]]          # adjacent swap
    if mode == 'pairs':
        for i, j in itertools.combinations(range(n), 2):
            for ka in VALS[:4]:
                for kb in VALS[:4]:
                    yield [[i, value(ka, sites[i][2])], [j, value(kb, sites[j][2])]]


def build(case):
    """case -> input text (None when the delimiter substitution is not applicable)"""
    doc, sites = base_doc(case['doc'], case.get('base', 'asis'))
    for i, v in case.get('inj') or []:
        setf(doc.pieces[sites[i][0]][2], v)
    return doc.text(case.get('layout', 'orig'), case.get('delims'))


# ----- the seam ---------------------------------------------------------------------------------------
class Failed(Exception):
    def __init__(self, exc):
        self.exc = exc


def call_main(argv):
    """pyx12.scripts.x12norm.main() with argv, stdout captured -> stdout text"""
    import pyx12.scripts.x12norm as x12norm
    root = logging.getLogger()
    before = list(root.handlers)
    lvl = root.level
    old_argv, old_out, old_err = sys.argv, sys.stdout, sys.stderr
    cap = io.StringIO()
    sys.argv = ['x12norm'] + argv
    sys.stdout = cap
    sys.stderr = io.StringIO()        # the program's log handler binds to the stderr of the moment: kept off the harness' own
    off = root.manager.disable
    logging.disable(logging.NOTSET)   # the harness silences logging globally (core.bind_repo); the program under test runs with it on
    try:
        x12norm.main()
    except (Exception, SystemExit) as e:
        raise Failed(e)
    finally:
        sys.argv, sys.stdout, sys.stderr = old_argv, old_out, old_err
        logging.disable(off)
        for h in list(root.handlers):
            if h not in before:
                root.removeHandler(h)
        root.setLevel(lvl)
    return cap.getvalue()


def slurp(p):
    if not os.path.exists(p):
        return None
    with open(p, 'r', encoding='ascii', newline='') as f:
        return f.read()


def norm_once(tmp, n, text, eol, fix, dest, extra=()):
    """one run of the normaliser on `text` -> output text as found at the requested destination"""
    pin = os.path.join(tmp, 'in%d.x12' % n)
    with open(pin, 'w', encoding='ascii', newline='') as f:
        f.write(text)
    argv = list(extra) + (['-e'] if eol else []) + (['-f'] if fix else [])
    if dest == 'ofile':
        pout = os.path.join(tmp, 'out%d.x12' % n)
        # the output path already exists (an earlier run wrote there): -o names the file to WRITE, stale content must go
        with open(pout, 'w', encoding='ascii', newline='') as f:
            f.write('STALE*CONTENT*OF*AN*EARLIER*RUN~\n' * 3)
        argv += ['-o', pout]
    elif dest == 'inplace':
        argv += ['-i']
    so = call_main(argv + [pin])
    if dest == 'stdout':
        return so
    if dest == 'ofile':
        return slurp(pout)
    return slurp(pin)


# ----- oracle -----------------------------------------------------------------------------------------
def seglists(toks, d):
    return [[t.id] + [d[2].join(c) if t.id != 'ISA' else c[0] for c in t.eles] for t in toks if t.id is not None]


def canon(toks, mask):
    out = []
    for t in toks:
        if t.id is None:
            continue
        e = t.eles if t.id == 'ISA' else ref.trim(t.eles)
        if mask and t.id in COUNTED:
            e = [list(c) for c in e]
            if e:
                e[0] = ['#']
            else:
                e = [['#']]
            e = ref.trim(e)
        out.append([t.id, e])
    return out


def klass(sid):
    return sid if sid in ('ISA', 'GS', 'ST', 'SE', 'GE', 'IEA', 'HL') else 'body segment'


def show(text):
    return repr(text if len(text) < 400 else text[:200] + ' ... ' + text[-150:])


def reread(out):
    import pyx12.x12file
    r = pyx12.x12file.X12Reader(io.StringIO(out))
    errs = []
    for s in r:
        errs += [(e[0], e[1]) for e in r.pop_errors() if e[1] in ENV.get(e[0], ())]
    r.cleanup()
    errs += [(e[0], e[1]) for e in r.pop_errors() if e[1] in ENV.get(e[0], ())]
    return errs


def check_text(text, eol, fix, dest):
    """one execution -> (violations or None when the statement leaves the input open, outcome label)"""
    otag = '%s%s %s' % ('-e ' if eol else '', '-f' if fix else '', {'stdout': 'stdout', 'ofile': '-o FILE', 'inplace': '-i'}[dest])
    otag = otag.strip()
    try:
        text.encode('ascii')
    except UnicodeEncodeError:
        return None, 'skip'
    if not ref.header_ok(text):
        return None, 'skip'
    tin, din = ref.tokenize(text)
    if any(t.murky for t in tin):
        return None, 'skip'
    # CR is only comparable as layout directly after a terminator (text mode translates it)
    seg = din[0]
    for p in text.split(seg):
        if '\r' in p.lstrip('\r\n'):
            return None, 'skip'
    if seg == '\r':
        return None, 'skip'
    sin = seglists(tin, din)
    tmp = tempfile.mkdtemp(prefix='c20_', dir=SCRATCH)
    try:
        try:
            out = norm_once(tmp, 1, text, eol, fix, dest)
        except Failed as f:
            e = f.exc
            return [('C20|run|raises %s@%s' % (type(e).__name__, core.where(e)), 'options %s: normalising %s raised %r' % (otag, show(text), e))], 'raise'
        dname = {'stdout': 'stdout', 'ofile': '-o FILE', 'inplace': '-i'}[dest]
        if out is None or out.strip('\r\n') == '':
            return [('C20|%s|nothing written' % dname, 'options %s: the destination holds %r after normalising %s' % (otag, out, show(text)))], 'empty'
        if not ref.header_ok(out):
            return [('C20|%s|output is not an interchange' % dname, 'options %s: output %s' % (otag, show(out)))], 'garbled'
        viols = []
        tout, dout = ref.tokenize(out)
        # 1. same segments, values, delimiters
        if dout != din:
            viols.append(('C20|preserve|delimiters differ', 'options %s: input delimiters %r, output %r' % (otag, din, dout)))
        else:
            a, b = canon(tin, fix), canon(tout, fix)
            if a != b:
                if len(a) != len(b):
                    kind = 'segments lost' if len(b) < len(a) else 'segments added'
                    where = ''
                else:
                    i = [x != y for x, y in zip(a, b)].index(True)
                    kind = 'values differ in ' + klass(a[i][0])
                    where = ' (%r -> %r)' % (a[i], b[i])
                viols.append(('C20|preserve%s|%s' % ('|-f' if fix else '', kind),
                              'options %s: input %s, output %s%s' % (otag, show(text), show(out), where)))
        # 2. one segment per line
        if eol and seg != '\n' and dout == din:
            pieces = out.split(seg)
            ok = pieces[-1] != '' and pieces[-1].strip('\n') == '' and not pieces[0][:1] in ('\r', '\n')
            for p in pieces[1:-1]:
                if not (p[:1] == '\n' and p[1:2] not in ('\r', '\n', '')):
                    ok = False
            if not ok:
                viols.append(('C20|eol|not one segment per line', 'options %s: output %s' % (otag, show(out))))
        # 4. count repair
        pre = 'na'
        if fix and dout == din:
            pre, v4 = judge_fix(sin, tout, dout, out, otag, text)
            viols += v4
        # 3. idempotence
        try:
            out2 = norm_once(tmp, 2, out, eol, fix, dest)
            if out2 != out:
                t2 = ref.tokenize(out2)[0] if out2 and ref.header_ok(out2) else None
                kind = 'layout' if t2 is not None and canon(t2, False) == canon(tout, False) else 'content'
                viols.append(('C20|idempotent%s|second pass changes the %s' % ('|-f' if fix else '', kind),
                              'options %s: first pass %s, second pass %s' % (otag, show(out), show(out2 if out2 is not None else ''))))
        except Failed as f:
            e = f.exc
            viols.append(('C20|idempotent|second pass raises %s@%s' % (type(e).__name__, core.where(e)),
                          'options %s: normalising the output %s raised %r' % (otag, show(out), e)))
        ndef = 0
        if ref.nests(sin):
            per, end, loose = ref.recount(sin)
            ndef = sum(len(p) for p in per) + len(end)
        return viols, '%s|pre=%s|defects=%d' % (otag, pre, min(ndef, 3))
    finally:
        shutil.rmtree(tmp, ignore_errors=True)


def judge_fix(sin, tout, dout, out, otag, text):
    """-> (precondition 'yes'/'no'/'open', violations)"""
    if not ref.nests(sin):
        return 'no', []
    per, end, loose = ref.recount(sin)
    if loose:
        return 'open', []
    if end or any(e not in FIXABLE for p in per for e in p):
        return 'no', []
    tv = truth(sin)
    if any(v is None for v in tv.values()):
        return 'open', []
    viols = []
    sout = seglists(tout, dout)
    if len(sout) != len(sin):
        return 'yes', []          # already reported by the preservation check
    names = {'IEA': 'IEA01', 'GE': 'GE01', 'SE': 'SE01', 'HL': 'HL01'}
    for i, want in sorted(tv.items()):
        a = ref.val(sin[i], 1); b = ref.val(sout[i], 1)
        f = names[sin[i][0]]
        if ref.toint(a) == want:
            if (b or '') != (a or ''):
                viols.append(('C20|fix|correct %s altered' % f, 'options %s: %s was %r (true %d), written as %r; input %s' % (otag, f, a, want, b, show(text))))
        elif ref.toint(b) != want:
            viols.append(('C20|fix|%s not repaired' % f, 'options %s: %s was %r, true value %d, written as %r; input %s' % (otag, f, a, want, b, show(text))))
    if ref.nests(sout):
        per2, end2, _ = ref.recount(sout)
        left = sorted(set(e for p in per2 for e in p) | set(end2))
        if left:
            viols.append(('C20|fix|recount of the output still finds %s' % ','.join('%s/%s' % e for e in left), 'options %s: input %s, output %s' % (otag, show(text), show(out))))
    try:
        errs = sorted(set(reread(out)))
    except Exception as e:
        viols.append(('C20|fix|re-reading the output raises %s@%s' % (type(e).__name__, core.where(e)), 'options %s: output %s: %r' % (otag, show(out), e)))
        errs = []
    if errs:
        viols.append(('C20|fix|reader still reports %s' % ','.join('%s/%s' % e for e in errs), 'options %s: input %s, output %s' % (otag, show(text), show(out))))
    return 'yes', viols


# ----- several input files in one invocation (differential: each file must come out as in a run of its own) ---------
BATCH_DOCS = ['m1113', 'm1111', 'm2221', 'm1122:shapes', 'm1111+nogs', 's:simple1', 's:834_lui_id']


def batch_check(names, eol, fix, dest):
    c = corpus()
    texts = [c[n] for n in names]
    tmp = tempfile.mkdtemp(prefix='c20b_', dir='/dev/shm' if os.path.isdir('/dev/shm') else None)
    try:
        singles = []
        by_pattern = dest == 'inplace-glob'
        if by_pattern:
            dest = 'inplace'
        for i, t in enumerate(texts):
            try:
                singles.append(norm_once(tmp, 100 + i, t, eol, fix, dest))
            except Failed as e:
                return None, 'single run fails (judged by the main family)'
        paths = []
        sub_ = os.path.join(tmp, 'batch')
        os.mkdir(sub_)
        for i, t in enumerate(texts):
            pth = os.path.join(sub_, 'b%d.x12' % i)
            with open(pth, 'w', encoding='ascii', newline='') as f:
                f.write(t)
            paths.append(pth)
        listing0 = sorted(os.listdir(sub_))
        # the inputs named one by one, or by a pattern the normaliser expands itself (a quoted dir/*.x12)
        argv = (['-e'] if eol else []) + (['-f'] if fix else []) + (['-i'] if dest == 'inplace' else []) + ([os.path.join(sub_, '*.x12')] if by_pattern else paths)
        try:
            so = call_main(argv)
        except Failed as e:
            return [('C20|batch|raises %s' % type(e.args[0]).__name__, 'x12norm %s on %s raised %r' % (' '.join(a_ for a_ in argv if a_.startswith('-')), names, e.args[0]))], 'batch'
        v = []
        if sorted(os.listdir(sub_)) != listing0:
            v.append(('C20|batch|files appear or disappear next to the inputs', 'x12norm %s: directory held %r, now %r' % (' '.join(os.path.basename(a_) for a_ in argv), listing0, sorted(os.listdir(sub_)))))
        if dest == 'inplace':
            for i, pth in enumerate(paths):
                if slurp(pth) != singles[i]:
                    v.append(('C20|batch|file %d of the batch differs from a run of its own' % (i + 1),
                              'x12norm -i on %s: file %d is %s, alone it is %s' % (names, i + 1, show(slurp(pth)), show(singles[i]))))
        else:
            if so != ''.join(singles):
                v.append(('C20|batch|stdout differs from the concatenation of single runs',
                          'x12norm on %s: %s, single runs give %s' % (names, show(so), show(''.join(singles)))))
        return v, 'batch'
    finally:
        shutil.rmtree(tmp, ignore_errors=True)


def boundary_text(pad, layout):
    """an interchange longer than the reader's 8 KiB buffer (125 sets, about 10 KB) with one value lengthened by `pad`
    characters, laid out with LF / CRLF after every terminator: slides every terminator and line break across the refill boundary"""
    t = mini(1, 1, 125, 1).replace('BHT*0019*00*1*', 'BHT*0019*00*' + 'A' * (1 + pad) + '*', 1)
    return Doc(t).text(layout)


def work_boundary(shard):
    pads, thorough = shard
    P = core.Part()
    for pad in pads:
        for layout in ('lf', 'crlf'):
            text = boundary_text(pad, layout)
            for eol, fix, dest in ([(True, False, 'stdout'), (False, False, 'stdout'), (True, True, 'inplace')] if not thorough else OPTS):
                v, label = check_text(text, eol, fix, dest)
                P.n += 1
                if v is None:
                    continue
                P.out('boundary|' + label)
                for k, m in v:
                    P.bad(k, {'boundary': pad, 'layout': layout, 'eol': eol, 'fix': fix, 'dest': dest}, 'boundary document pad=%d layout=%s: %s' % (pad, layout, m))
    return P


VERBOSITY = (('-v',), ('-vv',), ('-d',), ('-q',), ('-v', '-d'), ('--verbose',), ('--debug',), ('--quiet',))
VERB_DOCS = ['m1113', 'm1122:shapes', 'm1122:se2', 's:simple1']


def verbosity_check(name, eol, fix, dest, flags):
    """the verbosity switches say how much the program reports about its work; what it writes as the normalised
    document (stdout, -o FILE, in place) is the same text with and without them"""
    text = corpus()[name]
    tmp = tempfile.mkdtemp(prefix='c20v_', dir=SCRATCH)
    try:
        try:
            a = norm_once(tmp, 0, text, eol, fix, dest)
        except Failed as e:
            return None, 'plain run fails (judged by the main family)'
        try:
            b = norm_once(tmp, 1, text, eol, fix, dest, flags)
        except Failed as e:
            return [('C20|verbosity|raises %s' % type(e.exc).__name__, 'options %s %s: %r' % (' '.join(flags), dest, e.exc))], None
        if a != b:
            k = 0
            while k < min(len(a or ''), len(b or '')) and a[k] == b[k]:
                k += 1
            return [('C20|verbosity|output differs', 'document %s, options %s%s%s to %s: the normalised text differs from the run without %s at offset %d: %r instead of %r'
                     % (name, ' '.join(flags), ' -e' if eol else '', ' -f' if fix else '', dest, ' '.join(flags), k, (b or '')[k:k + 60], (a or '')[k:k + 60]))], None
        return [], None
    finally:
        shutil.rmtree(tmp, ignore_errors=True)


def work_verbosity(shard):
    name, = shard
    P = core.Part()
    for flags in VERBOSITY:
        for (eol, fix, dest) in OPTS:
            v, label = verbosity_check(name, eol, fix, dest, flags)
            P.n += 1
            if v is None:
                P.counters['verbosity: ' + label] += 1
                continue
            P.out('verbosity|%s|%s' % (flags[0], dest))
            for k, m in v:
                P.bad(k, {'verbosity': list(flags), 'name': name, 'eol': eol, 'fix': fix, 'dest': dest}, m)
    return P


def work_batch(shard):
    pairs, = shard
    P = core.Part()
    for names in pairs:
        for eol in (False, True):
            for fix in (False, True):
                for dest in ('stdout', 'inplace', 'inplace-glob'):
                    v, label = batch_check(names, eol, fix, dest)
                    P.n += 1
                    if v is None:
                        P.counters['batch: ' + label] += 1
                        continue
                    P.out('batch|%s|%s|%s' % (eol, fix, dest))
                    for k, m in v:
                        P.bad(k, {'batch': list(names), 'eol': eol, 'fix': fix, 'dest': dest}, m)
    return P


def evaluate(case):
    if 'boundary' in case:
        v, _ = check_text(boundary_text(case['boundary'], case['layout']), case['eol'], case['fix'], case['dest'])
        return v or []
    if 'batch' in case:
        v, _ = batch_check(case['batch'], case['eol'], case['fix'], case['dest'])
        return v or []
    if 'verbosity' in case:
        v, _ = verbosity_check(case['name'], case['eol'], case['fix'], case['dest'], tuple(case['verbosity']))
        return v or []
    text = build(case)
    if text is None:
        return []
    v, _ = check_text(text, case['eol'], case['fix'], case['dest'])
    return v or []


# ----- enumeration ------------------------------------------------------------------------------------
def work(shard):
    name, base, layout, delims, mode, opts, part, nparts = shard
    P = core.Part()
    doc0, sites = base_doc(name, base)
    injs = [[]] if mode == 'none' else list(injections(sites, mode))
    injs = injs[part::nparts]
    for inj in injs:
        case0 = {'doc': name, 'base': base, 'layout': layout, 'delims': list(delims) if delims else None, 'inj': inj}
        text = build(case0)
        if text is None:
            P.counters['delimiter_substitution_not_applicable'] += 1
            continue
        for eol, fix, dest in opts:
            v, label = check_text(text, eol, fix, dest)
            P.n += 1
            if v is None:
                P.counters['left_open_by_statement'] += 1
                continue
            P.out(label)
            if 'pre=open' in label:
                P.counters['fix_precondition_open'] += 1
            elif 'pre=no' in label:
                P.counters['fix_precondition_false'] += 1
            elif 'pre=yes' in label:
                P.counters['fix_precondition_true'] += 1
            if v:
                case = dict(case0, eol=eol, fix=fix, dest=dest)
                for k, m in v:
                    # like Part.bad, but the reported example is the one with the shortest input text
                    P.counters['violating_cases'] += 1
                    size = len(text) * 100 + len(repr(inj)) + (50 if delims else 0) + (20 if layout != 'orig' else 0)
                    if k not in P.viol or size < P.viol[k][0]:
                        P.viol[k] = (size, case, m)
            elif P.n % 500 == 1:
                P.sample(dict(case0, eol=eol, fix=fix, dest=dest), cap=1)
    return P


def plan(thorough):
    names = sorted(corpus())
    minis = [n for n in names if n.startswith('m')]
    suite = [n for n in names if n.startswith('s:')]
    big = {'s:loop_counting', 's:loop_counting2', 's:trailer_errors', 's:simple_837i'}
    foreign = FOREIGN_T if thorough else FOREIGN_Q
    sh = []
    allo = OPTS
    stdo = [o for o in OPTS if o[2] == 'stdout']
    for n in names:
        # every document as shipped and cleaned, every layout, every delimiter triple, every option combination
        for base in ('asis', 'clean'):
            for lay in LAYOUTS:
                for d in [None] + foreign:
                    sh.append((n, base, lay, d, 'none', allo))
    for n in names:
        heavy = n in big
        # single + group defects: all options on the shipped layout; other layouts / delimiters with all options (thorough)
        sh.append((n, 'clean', 'orig', None, 'single+group', allo if (thorough or not heavy) else stdo))
        if thorough or n in minis:
            for lay in ('none', 'crlf'):
                sh.append((n, 'clean', lay, None, 'single+group', allo))
            for d in foreign:
                sh.append((n, 'clean', 'lf', d, 'single+group', allo))
    for n in names:
        if n in minis:
            sh.append((n, 'clean', 'orig', None, 'pairs', allo if thorough else stdo))
            if thorough:
                sh.append((n, 'clean', 'crlf', foreign[0], 'pairs', allo))
        elif thorough:
            sh.append((n, 'clean', 'orig', None, 'pairs', allo))
    # split heavy shards so that no shard holds more than ~1500 executions
    out = []
    for s in sh:
        name, base, lay, d, mode, opts = s
        n = 1 if mode == 'none' else sum(1 for _ in injections(base_doc(name, base)[1], mode))
        nparts = max(1, (n * len(opts) * max(1, len(corpus()[name]) // 1000) + 1499) // 1500)
        for k in range(nparts):
            out.append(s + (k, nparts))
    return out


def run(R):
    shards = plan(R.thorough)
    # heavy shards first so that the pool drains evenly
    weight = {'pairs': 0, 'single+group': 1, 'none': 2}
    shards.sort(key=lambda s: (weight[s[4]], -len(corpus()[s[0]])))
    R.pmap(work, shards)
    pairs = [(a, b) for a in BATCH_DOCS for b in BATCH_DOCS]
    if R.thorough:
        pairs += [(a, b, c3) for a in BATCH_DOCS[:4] for b in BATCH_DOCS[:4] for c3 in BATCH_DOCS[:4]]
    R.pmap(work_batch, [(ch,) for ch in core.chunks(pairs, 32)])
    R.cov['batch_invocations'] = len(pairs) * 8
    R.pmap(work_verbosity, [(n,) for n in VERB_DOCS])
    npad = 64 if R.thorough else 40
    R.pmap(work_boundary, [(list(range(k, npad, 16)), R.thorough) for k in range(16)])
    R.cov['boundary_documents'] = npad * 2
    c = corpus()
    R.bounds = {'documents': '%d hand-built minimal interchanges (incl. 3 with a group-less TA1-only interchange) + %d suite sources, each as shipped and with reference-correct counts'
                             % (sum(1 for n in c if n.startswith('m')), sum(1 for n in c if n.startswith('s:'))),
                'verbosity': '%d documents x the 12 option combinations x %d spellings of the -v / -d / -q switches: output identical to the run without them' % (len(VERB_DOCS), len(VERBOSITY)),
                'layouts': list(LAYOUTS), 'foreign delimiter triples': [list(d) for d in (FOREIGN_T if R.thorough else FOREIGN_Q)],
                'defects': 'IEA01/GE01/SE01/HL01 in {true+1,true-1,x,empty,zero-padded} at every trailer/HL singly; HL01 of every set shifted/reversed/adjacent-swapped; '
                           'all pairs of sites x {true+1,true-1,x,empty}^2 on %s' % ('every document' if R.thorough else 'the hand-built documents'),
                'options': '{-e} x {-f} x {stdout, -o FILE, -i} = 12%s' % ('' if R.thorough else ' (pairs: the 4 stdout combinations; single defects on the 4 largest suite sources: stdout combinations)'),
                'layout/delimiter variation of defect cases': ('single+group defects also without line breaks, with CRLF, and with every foreign triple; pairs on hand-built documents also with CRLF + first foreign triple'
                                                               if R.thorough else 'hand-built documents only (no line breaks, CRLF, every foreign triple)'),
                'shards': len(shards)}
    R.assumptions = ['trailing empty elements/components dropped by Segment.format are the documented normalisation, not an altered value',
                     'without -e the statement fixes no layout; only tokenised equality and byte-for-byte idempotence are demanded',
                     'idempotence is checked with the same options and the same destination kind as the first pass',
                     'a LF segment terminator makes "one per line" undecidable and is exempt from the -e layout check; CR only occurs as layout after a terminator',
                     'under -f on inputs that do not meet the precondition (other envelope defects, HL outside a set) only preservation of the non-count fields and idempotence are demanded',
                     'a count field that is numerically right (e.g. zero padded) counts as correct and must be left alone']
    return R.finish(LEVEL, 'documents x layouts x delimiters x count-defect injections x 12 option combinations; an outcome is distinct by (options, fix precondition, number of reference defects capped at 3)',
                    exhaustive=True)
