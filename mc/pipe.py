"""
Pipeline observer: run the real validator on a text and read everything observable -- verdict,
the error tree (through the public visitor protocol), the acknowledgement, HTML, XML, and the map
node matched for every segment (through the documented callback parameter).
"""
import io, sys
from mc import core
core.bind_repo()
import pyx12.x12n_document, pyx12.error_handler, pyx12.error_visitor, pyx12.params, pyx12.errors
import pyx12.error_997, pyx12.error_999, pyx12.error_html


class FixedTime(object):
    """stub for the `time` module used by the ack / html writers (owned nondeterminism)"""
    @staticmethod
    def strftime(fmt, *a):
        import time as _t
        return _t.strftime(fmt, (2004, 1, 2, 12, 0, 0, 4, 2, 0))

    @staticmethod
    def localtime(*a):
        import time as _t
        return _t.struct_time((2004, 1, 2, 12, 0, 0, 4, 2, 0))

    def __getattr__(self, k):
        import time as _t
        return getattr(_t, k)


_captured = []
_orig_init = pyx12.error_handler.err_handler.__init__


def _init(self, *a, **k):
    _orig_init(self, *a, **k)
    _captured.append(self)


pyx12.error_handler.err_handler.__init__ = _init


def stub_clock(on=True):
    import time, random
    for m in (pyx12.error_997, pyx12.error_999, pyx12.error_html):
        if hasattr(m, 'time'):
            m.time = FixedTime() if on else time
    if hasattr(pyx12.error_999, 'random'):
        class R(object):
            @staticmethod
            def randint(a, b):
                return a + 7
        pyx12.error_999.random = R() if on else random


class TreeReader(pyx12.error_visitor.error_visitor):
    """collects the error tree as plain data"""

    def __init__(self):
        self.isas = []
        self.flat = []      # (level, code, isa#, gs#, st#, seg_id, seg_count, ele_pos, subele_pos, value)
        self.i = self.g = self.s = -1
        self.cur_seg = None

    def visit_root_pre(self, errh): pass
    def visit_root_post(self, errh): pass

    def visit_isa_pre(self, n):
        self.i += 1; self.g = -1
        self.isas.append({'errors': [e[0] for e in n.errors], 'gs': [], 'ele': self._eles(n, 'isa')})
        for e in n.errors:
            self.flat.append(('isa', e[0], self.i, None, None, None, None, None, None, None))

    def visit_isa_post(self, n): pass

    def _eles(self, n, level):
        out = []
        for el in getattr(n, 'elements', []):
            for e in el.errors:
                out.append((el.ele_pos, el.subele_pos, e[0], e[2]))
                self.flat.append((level + '-ele', e[0], self.i, self.g if level != 'isa' else None, self.s if level == 'st' else None,
                                  level.upper(), None, el.ele_pos, el.subele_pos, e[2]))
        return out

    def visit_gs_pre(self, n):
        self.g += 1; self.s = -1
        d = {'errors': [e[0] for e in n.errors], 'st': [], 'fic': n.fic, 'ctl': n.gs_control_num, 'ack': None}
        self.isas[-1]['gs'].append(d)
        d['ele'] = self._eles(n, 'gs')
        for e in n.errors:
            self.flat.append(('gs', e[0], self.i, self.g, None, None, None, None, None, None))

    def visit_gs_post(self, n):
        d = self.isas[-1]['gs'][-1]
        d['ack'] = n.ack_code; d['orig'] = n.st_count_orig; d['recv'] = n.st_count_recv

    def visit_st_pre(self, n):
        self.s += 1
        d = {'errors': [e[0] for e in n.errors], 'segs': [], 'id': n.trn_set_id, 'ctl': n.trn_set_control_num, 'ack': None,
             'se_line': getattr(n, 'cur_line_se', None)}
        self.isas[-1]['gs'][-1]['st'].append(d)
        d['ele'] = self._eles(n, 'st')
        for e in n.errors:
            self.flat.append(('st', e[0], self.i, self.g, self.s, None, None, None, None, None))

    def visit_st_post(self, n):
        self.isas[-1]['gs'][-1]['st'][-1]['ack'] = n.ack_code

    def visit_seg(self, n):
        d = {'id': n.seg_id, 'count': n.seg_count, 'line': n.cur_line, 'errors': [(e[0], e[2]) for e in n.errors], 'ele': []}
        self.isas[-1]['gs'][-1]['st'][-1]['segs'].append(d)
        self.cur_seg = d
        for e in n.errors:
            self.flat.append(('seg', e[0], self.i, self.g, self.s, n.seg_id, n.seg_count, None, None, e[2]))
        self._n = n

    def visit_ele(self, n):
        for e in n.errors:
            self.cur_seg['ele'].append((n.ele_pos, n.subele_pos, e[0], e[2]))
            self.flat.append(('ele', e[0], self.i, self.g, self.s, self._n.seg_id, self._n.seg_count, n.ele_pos, n.subele_pos, e[2]))


class Obs(object):
    __slots__ = ('verdict', 'exc', 'exc_where', 'exc_obj', 'errors', 'tree', 'ack', 'html', 'xml', 'nodes', 'tree_exc')


def run(text, sinks=('ack', 'html', 'xml'), charset='E', want_nodes=True, map_path=None, exclude=None, params=None):
    """-> Obs"""
    o = Obs()
    o.verdict = None; o.exc = None; o.exc_where = None; o.exc_obj = None; o.errors = None; o.tree = None
    o.ack = o.html = o.xml = None; o.nodes = []; o.tree_exc = None
    p = pyx12.params.params()
    p.set('charset', charset)
    if exclude:
        p.set('exclude_external_codes', exclude)
    for k, v in (params or {}).items():
        p.set(k, v)
    fa = io.StringIO() if 'ack' in sinks else None
    fh = io.StringIO() if 'html' in sinks else None
    fx = io.StringIO() if 'xml' in sinks else None
    nodes = o.nodes

    def cb(seg, src, node, valid):
        nodes.append(node.get_path() if node is not None and hasattr(node, 'get_path') else None)

    del _captured[:]
    try:
        o.verdict = pyx12.x12n_document.x12n_document(p, io.StringIO(text), fa, fh, fx, None, map_path, cb if want_nodes else None)
    except Exception as e:
        o.exc = type(e).__name__
        o.exc_where = core.where(e)
        o.exc_obj = e
    if _captured:
        tr = TreeReader()
        try:
            _captured[0].accept(tr)
            o.errors = tr.flat
            o.tree = tr.isas
        except Exception as e:
            o.tree_exc = '%s@%s' % (type(e).__name__, core.where(e))
    o.ack = fa.getvalue() if fa else None
    o.html = fh.getvalue() if fh else None
    o.xml = fx.getvalue() if fx else None
    return o


def ack_segments(ack):
    """acknowledgement text -> list of [id, e1, ...] (the ack always uses ~ * :)"""
    out = []
    for piece in ack.split('~'):
        piece = piece.strip('\r\n')
        if piece:
            out.append(piece.split('*'))
    return out
