"""
C09 - the context reader partitions the document without loss, duplication or reordering.

Space (complete, no sampling): for every selectable map and every loop node L that begins with a segment
(envelope loops included) the documents that place L {absent / minimal, once, once with all its direct
children, once with every descendant, once followed by the next sibling of its parent, twice back-to-back,
inside a parent repeated twice, together with every other loop of the same id}, each also with a second
transaction set and a second functional group (envelope loops: also a second interchange and the nested
repeats); the document with every optional node of the map; only documents the independent grammar's
reference parser accepts as generated (gen.selfcheck).  Every document is read with
X12ContextReader.iter_segments(id) for the id of L, of the loop(s) enclosing L, and with iter_segments(None).
Second family: the shared conformant corpus (quick: 8 shapes per map; thorough: every single deviation from
the minimal document), each document read with every loop id occurring in it, one that does not, and None.
When the reader stops early, the loss is reported and the remaining oracles are applied to the yielded prefix.

Oracle (mc.ref tokenizer + mc.grammar/mc.gen loop instances, no pyx12 code):
  * flattening every yielded node with iterate_segments(), in the order yielded, gives exactly the source
    token stream (ids and all values);
  * the yielded items are: one tree per instance of a loop with id L (the maximal run of segments that
    carry that instance in Doc.lpaths), every other segment a plain segment node;
  * each tree is rooted at a loop node with id L whose map path is the instance's path;
  * inside a tree the chain of loop nodes between root and segment equals the grammar path of the
    segment below L (wrapper loops included), and segments share a loop node exactly when they belong to
    the same loop instance (wrapper loops excluded: they have no instances of their own);
  * cur_line_number = 1-based ordinal of the segment in the file; seg_count = position in the set
    (ST = 1; SE: the suite-pinned reader convention 'count of the last body segment' or its true
    position; ISA/GS/GE/IEA are outside any set and not compared).
"""
import io, json, re
from mc import core, corpus, gen, ref, grammar as G

ID = 'C09'
LEVEL = 'model_checking'
ENVELOPE_LOOPS = ('ISA_LOOP', 'GS_LOOP', 'ST_LOOP')
ENVELOPE_SEGS = ('ISA', 'GS', 'GE', 'IEA')


# ---------------------------------------------------------------------------------------------------
# observation of the real code
# ---------------------------------------------------------------------------------------------------
def matrix(seg):
    m = []
    for i in range(len(seg)):
        rd = '%02d' % (i + 1)
        n = seg.ele_len(rd)
        m.append([seg.get_value('%s-%d' % (rd, j + 1)) for j in range(n)])
    return [seg.get_seg_id(), m]


class SegRec(object):
    __slots__ = ('matrix', 'seg_count', 'line', 'path', 'chain', 'same_obj')


def _walk(node, chain, out, serial):
    """depth first over children exactly as iterate_segments does (deleted nodes skipped)"""
    if node.type == 'loop':
        for c in node.children:
            if c.type is None:
                continue
            if c.type == 'loop':
                serial[0] += 1
                _walk(c, chain + ((c.id, c.x12_map_node.get_path(), serial[0]),), out, serial)
            else:
                _walk(c, chain, out, serial)
    else:
        out.append((node, chain))


def snapshot(node):
    """-> ('seg', [SegRec]) or ('tree', root id, root path, [SegRec], structure_ok)"""
    flat = list(node.iterate_segments())
    walked = []
    _walk(node, (), walked, [0])
    recs = []
    same = len(walked) == len(flat)
    for k, d in enumerate(flat):
        r = SegRec()
        r.matrix = matrix(d['segment'])
        r.seg_count = d.get('seg_count')
        r.line = d.get('cur_line_number')
        if same and walked[k][0].seg_data is d['segment']:
            r.path = walked[k][0].x12_map_node.get_path()
            r.chain = walked[k][1]
            r.same_obj = True
        else:
            same = False
            r.path = None; r.chain = None; r.same_obj = False
        recs.append(r)
    if node.type == 'loop':
        return ('tree', node.id, node.x12_map_node.get_path(), recs, same)
    return ('seg', None, None, recs, same)


_MAPS = {}


def observe(text, loop_id, memo=False):
    """-> (items, exception or None).  memo=True (exploration only) re-uses loaded map objects: loading costs
    ~60 ms, reading a document ~10 ms, and map reuse is unobservable (C18); every violation is re-executed by
    evaluate() with the real loader before it is reported"""
    core.bind_repo()
    import pyx12.x12context, pyx12.params, pyx12.error_handler, pyx12.map_if
    items = []
    real = pyx12.map_if.load_map_file

    def cached(map_file, param, map_path=None):
        k = (map_file, map_path)
        if k not in _MAPS:
            _MAPS[k] = real(map_file, param, map_path)
        return _MAPS[k]

    if memo:
        pyx12.map_if.load_map_file = cached
    try:
        src = pyx12.x12context.X12ContextReader(pyx12.params.params(), pyx12.error_handler.errh_null(), io.StringIO(text))
        for node in src.iter_segments(loop_id):
            items.append(snapshot(node))
    except Exception as e:
        return items, e
    finally:
        pyx12.map_if.load_map_file = real
    return items, None


# ---------------------------------------------------------------------------------------------------
# reference
# ---------------------------------------------------------------------------------------------------
def last(path):
    return path.rsplit('/', 1)[1]


def expected_items(doc, L):
    """-> list of ('seg', None, [i]) / ('tree', (path, n), [i...]); None when an instance of L lies inside
    another instance of L (the statement does not say which of the two is 'the' tree)"""
    items = []
    seen = set()
    for i, lp in enumerate(doc.lpaths):
        keys = [(p, n) for (p, n) in lp if L is not None and last(p) == L]
        if len(keys) > 1:
            return None
        if not keys:
            items.append(('seg', None, [i]))
        elif items and items[-1][0] == 'tree' and items[-1][1] == keys[0]:
            items[-1][2].append(i)
        else:
            assert keys[0] not in seen, 'generator: loop instance is not contiguous'
            seen.add(keys[0])
            items.append(('tree', keys[0], [i]))
    return items


def recount(doc):
    """position in the set per segment (None outside a set), from the segment list alone"""
    out = []
    n = None
    for s in doc.segs:
        if s[0] == 'ST':
            n = 1; out.append(n)
        elif s[0] in ENVELOPE_SEGS:
            n = None; out.append(None)
        elif n is None:
            out.append(None)
        else:
            n += 1; out.append(n)
    return out


def lclass(L):
    if L is None:
        return 'loop=None'
    if L in ENVELOPE_LOOPS:
        return 'loop=' + L
    return 'loop=body'


_transp = {}


def is_transparent(fname, path):
    k = (fname, path)
    if k not in _transp:
        n = gen.find(G.load(fname), path)
        _transp[k] = bool(n is not None and n.kind == 'loop' and gen.transparent(n))
    return _transp[k]


def judge(doc, text, L, items, exc):
    """-> (list of (key, msg), situation label, skipped-reason or None)"""
    lc = lclass(L)
    v = []
    toks, _d = ref.tokenize(text)
    exp_m = [t.matrix() for t in toks if t.id is not None]
    assert len(exp_m) == len(doc.segs)
    if exc is not None:
        v.append(('C09|iter_segments raises %s@%s' % (type(exc).__name__, core.where(exc)),
                  'iter_segments(%r) raised %r after yielding %d nodes' % (L, exc, len(items))))
        return v, 'raises', None
    got_m = [r.matrix for it in items for r in it[3]]
    if got_m != exp_m:
        if len(got_m) < len(exp_m) and got_m == exp_m[:len(got_m)]:
            kind = 'segments lost at end of input'
        else:
            gs = sorted(json.dumps(m) for m in got_m); es = sorted(json.dumps(m) for m in exp_m)
            if gs == es:
                kind = 'segments reordered'
            elif len(got_m) > len(exp_m):
                kind = 'segments duplicated or invented'
            elif len(got_m) < len(exp_m):
                kind = 'segments lost'
            else:
                kind = 'segment values differ'
        k = 0
        while k < len(got_m) and k < len(exp_m) and got_m[k] == exp_m[k]:
            k += 1
        v.append(('C09|%s|flatten|%s' % (lc, kind), 'iter_segments(%r): %d source segments, %d yielded; first difference at segment %d: source %r, yielded %r'
                  % (L, len(exp_m), len(got_m), k + 1, exp_m[k] if k < len(exp_m) else None, got_m[k] if k < len(got_m) else None)))
        if kind != 'segments lost at end of input' or not got_m:
            return v, 'flatten-differs', None
        # what was yielded is a proper prefix of the source: the remaining oracles are applied to that prefix
    npref = len(got_m)
    # line numbers and positions: independent of the loop structure
    pos = recount(doc)
    k = 0
    for it in items:
        for r in it[3]:
            sid = doc.segs[k][0]
            if r.line != k + 1:
                v.append(('C09|cur_line_number differs', 'iter_segments(%r): segment %d (%s) carries cur_line_number %r' % (L, k + 1, sid, r.line)))
            if sid == 'SE':
                if r.seg_count not in (pos[k], pos[k] - 1):
                    v.append(('C09|seg_count differs|SE', 'iter_segments(%r): SE at position %d of its set carries seg_count %r' % (L, pos[k], r.seg_count)))
            elif pos[k] is not None and r.seg_count != pos[k]:
                v.append(('C09|seg_count differs|%s' % ('ST' if sid == 'ST' else 'body'),
                          'iter_segments(%r): %s at position %d of its set (file segment %d) carries seg_count %r' % (L, sid, pos[k], k + 1, r.seg_count)))
            k += 1
    exp = expected_items(doc, L)
    if exp is None:
        return v, 'nested-same-id', 'an instance of the requested id lies inside another instance of it'
    # situation label
    ntree = sum(1 for e in exp if e[0] == 'tree')
    b2b = any(a[0] == 'tree' and b[0] == 'tree' for a, b in zip(exp, exp[1:]))
    endsparent = False
    for a, b in zip(exp, exp[1:]):
        if a[0] == 'tree' and b[0] == 'seg':
            # the next segment belongs to an ancestor further out than the parent instance -> parent ended with L
            plp = tuple(doc.lpaths[a[2][0]])
            par = plp[:plp.index(a[1])]
            if tuple(doc.lpaths[b[2][0]])[:len(par)] != par:
                endsparent = True
    sit = 'trees=%s%s%s' % (min(ntree, 3), ' back-to-back' if b2b else '', ' ends-parent' if endsparent else '')
    # every segment is handed over on the map node the grammar places it at (only conformant, unambiguous documents are used:
    # the reference parse reproduces the generating nodes).  Until round 10 a disagreement here was set aside as 'a C02 matter';
    # it never occurs on the unchanged tree, and a segment delivered on a stale node is in no tree it belongs to
    k = 0
    for it in items:
        for r in it[3]:
            if r.path is not None and re.sub(r'\[[^\]/]*\]$', '', r.path) != doc.nodes[k].path:
                v.append(('C09|%s|node|segment handed over on another map node than the one it belongs to' % lc,
                          'iter_segments(%r): segment %d %r came with map node %s, the grammar places it at %s' % (L, k + 1, doc.flat()[k], r.path, doc.nodes[k].path)))
                return v, sit, None
            k += 1
    # partition
    obs_shape = []
    k = 0
    for it in items:
        obs_shape.append((it[0], k, k + len(it[3])))
        k += len(it[3])
    exp_shape = [(e[0], e[2][0], e[2][-1] + 1) for e in exp]
    if npref < len(exp_m):
        exp = [e for e in exp if e[2][-1] + 1 <= npref]
        exp_shape = exp_shape[:len(exp)]
        sit = 'prefix ' + sit
        if len(obs_shape) > len(exp_shape):
            # the last yielded item covers only part of an expected item: reported as the loss already
            obs_shape = obs_shape[:len(exp_shape)]
            items = items[:len(exp_shape)]
    if obs_shape != exp_shape:
        j = 0
        while j < len(obs_shape) and j < len(exp_shape) and obs_shape[j] == exp_shape[j]:
            j += 1
        o = obs_shape[j] if j < len(obs_shape) else None
        e = exp_shape[j] if j < len(exp_shape) else None
        if o is None:
            kind = 'items missing'
        elif e is None:
            kind = 'extra items'
        elif e[0] == 'tree' and o[0] == 'seg':
            kind = 'segment of the requested loop yielded as a plain segment'
        elif e[0] == 'seg' and o[0] == 'tree':
            kind = 'tree yielded where no instance of the requested loop starts'
        elif o[2] < e[2]:
            kind = 'tree ends before its loop instance does'
        elif o[2] > e[2]:
            kind = 'tree runs past its loop instance'
        else:
            kind = 'items differ'
        v.append(('C09|%s|partition|%s' % (lc, kind), 'iter_segments(%r): expected item %r, yielded %r (kind, first segment index, end index); segment there: %r'
                  % (L, e, o, doc.flat()[(o or e)[1]] if (o or e)[1] < len(doc.segs) else None)))
        return v, sit, None
    # trees
    for it, e in zip(items, exp):
        if it[0] != 'tree':
            continue
        kind_, rid, rpath, recs, same = it
        ipath, inum = e[1]
        if rid != L or rpath != ipath:
            v.append(('C09|%s|tree root is not the requested loop instance' % lc, 'iter_segments(%r): tree rooted at %s (%s), instance %s' % (L, rid, rpath, ipath)))
            continue
        if not same:
            v.append(('C09|%s|tree|iterate_segments disagrees with the child structure' % lc, 'iter_segments(%r): tree %s' % (L, rpath)))
            continue
        ser2inst = {}; inst2ser = {}
        for r, i in zip(recs, e[2]):
            node = doc.nodes[i]
            comps = node.path[len(ipath):].split('/')[1:-1]
            want_chain = []
            p = ipath
            for c in comps:
                p = p + '/' + c
                want_chain.append((c, p))
            got_chain = [(c[0], c[1]) for c in r.chain]
            if got_chain != want_chain:
                v.append(('C09|%s|tree-shape|chain of enclosing loops differs from the grammar path' % lc,
                          'iter_segments(%r): segment %d %s matched %s sits under %r, grammar path below the root is %r'
                          % (L, i + 1, node.id, r.path, [c[0] for c in got_chain], [c[0] for c in want_chain])))
                break
            lp = list(doc.lpaths[i])
            depth = lp.index(e[1])
            below = lp[depth + 1:]
            real = [c for c in r.chain if not is_transparent(doc.entry[4], c[1])]
            if [c[1] for c in real] != [b[0] for b in below]:
                continue    # wrapper classification differs; chain already agreed
            bad = None
            for c, b in zip(real, below):
                if ser2inst.setdefault(c[2], b) != b:
                    bad = 'two loop instances share one loop node'
                if inst2ser.setdefault(b, c[2]) != c[2]:
                    bad = 'one loop instance is split over several loop nodes'
            if bad:
                v.append(('C09|%s|tree-shape|%s' % (lc, bad), 'iter_segments(%r): at segment %d %s (%s), instance chain %r' % (L, i + 1, node.id, node.path, below)))
                break
    return v, sit, None


# ---------------------------------------------------------------------------------------------------
# space
# ---------------------------------------------------------------------------------------------------
def anchored_loops(root):
    return [n for n in G.walk(root) if n.kind == 'loop' and n.children and n.children[0].kind == 'seg']


def real_parent(n):
    p = n.parent
    while p is not None and p.kind == 'loop' and gen.transparent(p):
        p = p.parent
    return p


def usable(n):
    x = n
    while x is not None and x.kind != 'root':
        if x.usage == 'N':
            return False
        x = x.parent
    return True


def descendants(n):
    return [x for x in G.walk(n) if x is not n and x.kind in ('loop', 'seg') and x.usage != 'N']


def signature(n):
    """children-shape signature used by the quick tier to keep one loop per shape and per map"""
    def rep(x):
        return min(G.maxrep(x), 2)
    sibs = n.parent.children
    later = sibs[sibs.index(n) + 1:]
    p = real_parent(n)
    return (n.usage, rep(n), tuple((c.kind, c.usage, rep(c), len(c.children) if c.kind == 'loop' else 0) for c in n.children),
            bool(later), any(s.usage == 'R' for s in later), n.parent is not p, rep(p) if p is not None and p.kind == 'loop' else 0,
            p.id in ENVELOPE_LOOPS if p is not None and p.kind == 'loop' else True)


def placements(root, n):
    """(name, plan) for loop node n; plans are JSON-able (include as a sorted list)"""
    out = []
    if n.id in ENVELOPE_LOOPS:
        out.append(('once', {}))
        out.append(('twice', {'ISA_LOOP': {'interchanges': 2}, 'GS_LOOP': {'groups': 2}, 'ST_LOOP': {'sets': 2}}[n.id]))
        if n.id != 'ISA_LOOP':
            out.append(('in-repeated-parent', {'GS_LOOP': {'interchanges': 2}, 'ST_LOOP': {'groups': 2}}[n.id]))
            out.append(('twice-in-repeated-parent', {'GS_LOOP': {'interchanges': 2, 'groups': 2}, 'ST_LOOP': {'groups': 2, 'sets': 2}}[n.id]))
        out.append(('everything', {'all': True}))
        out.append(('everything-swapped', {'all': True, 'swap_samepos': True}))
        out.append(('everything-twice', {'all': True, 'interchanges': 2, 'groups': 2, 'sets': 2}))
        # an interchange acknowledgement (TA1) between the ISA and the first group
        out.append(('after-ta1', {'ta1': True}))
        out.append(('after-ta1-twice', {'ta1': True, 'interchanges': 2, 'groups': 2}))
        return out
    out.append(('minimal', {}))
    if not usable(n):
        return out
    out.append(('once', {'include': [n.path]}))
    kids = [c.path for c in n.children if c.usage != 'N']
    out.append(('with-children', {'include': sorted([n.path] + kids)}))
    out.append(('with-descendants', {'include': sorted([n.path] + [x.path for x in descendants(n)])}))
    sibs = n.parent.children
    for s in sibs[sibs.index(n) + 1:]:
        if s.usage != 'N' and s.id not in ('SE',):
            out.append(('then-sibling', {'include': sorted([n.path, s.path])}))
            break
    if G.maxrep(n) >= 2:
        out.append(('twice', {'include': [n.path], 'repeat': {n.path: 2}}))
        out.append(('twice-with-children', {'include': sorted([n.path] + kids), 'repeat': {n.path: 2}}))
    p = real_parent(n)
    if p is not None and p.kind == 'loop' and p.id not in ENVELOPE_LOOPS and G.maxrep(p) >= 2:
        out.append(('in-repeated-parent', {'include': [n.path], 'repeat': {p.path: 2}}))
        if G.maxrep(n) >= 2:
            out.append(('twice-in-repeated-parent', {'include': [n.path], 'repeat': {p.path: 2, n.path: 2}}))
    same = [m.path for m in anchored_loops(root) if m.id == n.id and usable(m)]
    if len(same) > 1:
        out.append(('all-loops-of-this-id', {'include': sorted(same)}))
    out.append(('everything', {'all': True}))
    # same-position siblings may legally arrive in any order: the same document with every such run reversed
    out.append(('everything-swapped', {'all': True, 'swap_samepos': True}))
    return out


def envelopes(n):
    if n.id in ENVELOPE_LOOPS:
        return [('', {})]
    return [('', {}), ('+sets2', {'sets': 2}), ('+groups2', {'groups': 2})]


def build(entry, plan):
    p = dict(plan)
    if 'mixed' in p:
        # one file: an interchange of this map followed by one (two sets) of another map / version
        other = [e for e in corpus.one_entry_per_map() if e[4] == p['mixed']]
        d1 = corpus.build_ok(tuple(entry), {})
        d2 = corpus.build_ok(other[0], {'sets': 2}) if other else None
        if d1 is None or d2 is None:
            return None
        return gen.concat(d1, d2)
    if 'include' in p:
        p['include'] = set(p['include'])
    if 'repeat' in p:
        p['repeat'] = dict(p['repeat'])
    if 'fill' in p:
        p['fill'] = set(tuple(f) for f in p['fill'])
    return corpus.build_ok(tuple(entry), p)


def jsonable(plan):
    p = dict(plan)
    if 'include' in p:
        p['include'] = sorted(p['include'])
    if 'fill' in p:
        p['fill'] = sorted(list(f) for f in p['fill'])
    p.pop('_exact', None)
    return p


QUICK_PLANS = [('min', {}), ('all-filled', {'all': True, 'fill_all': True}), ('all', {'all': True}), ('two-sets', {'sets': 2}),
               ('two-groups', {'groups': 2}), ('two-interchanges', {'interchanges': 2}), ('lastcode', {'code': 'last'}),
               ('all-twice', {'all': True, 'sets': 2, 'groups': 2}), ('all-swapped', {'all': True, 'swap_samepos': True}),
               ('ta1-two-groups', {'ta1': True, 'groups': 2, 'interchanges': 2})]


# files that hold interchanges of different maps and versions: the map (and the version that selects it) is chosen per interchange
MIXED = ('834.4010.X095.A1.xml', '834.5010.X220.A1.xml', '835.5010.X221.A1.xml', '837.4010.X098.A1.xml')


def work_docs(shard):
    """second family: the shared conformant corpus (quick: 8 shapes per map; thorough: every single deviation
    from the minimal document, gen.plans_d1), each document read with every loop id that occurs in it, one
    anchored loop id of the map that does not, and None"""
    fam, entry, part, nparts, thorough = shard
    P = core.Part()
    root = G.load(entry[4])
    ids = []
    for n in anchored_loops(root):
        if n.id not in ids:
            ids.append(n.id)
    plans = (list(gen.plans_d1(entry)) if thorough else QUICK_PLANS) + list(gen.plans_boundary(entry, thorough))
    if entry[4] in MIXED:
        plans += [('mixed:' + o, {'mixed': o}) for o in MIXED if o != entry[4]]
    for pi, (name, plan) in enumerate(plans):
        if pi % nparts != part:
            continue
        jp = jsonable(plan)
        doc = build(entry, jp)
        if doc is None:
            P.counters['ungeneratable or ambiguous: corpus plan'] += 1
            continue
        text = doc.text(eol=jp.get('eol', '\n'))
        present = []
        for lp in doc.lpaths:
            for (pth, k) in lp:
                if last(pth) not in present:
                    present.append(last(pth))
        absent = [i for i in ids if i not in present][:1]
        kind = name.split(':')[0]
        for L in present + absent + [None]:
            P.n += 1
            items, exc = observe(text, L, memo=True)
            v, sit, skip = judge(doc, text, L, items, exc)
            if skip:
                P.counters['loop oracle skipped: ' + skip] += 1
            P.out('%s|corpus:%s|%s' % (lclass(L), kind, sit))
            case = {'entry': list(entry), 'plan': jp, 'loop': L, 'text': text}
            for k, m in v:
                P.bad(k, case, '%s %s: %s' % (entry[4], name, m))
    return P


def dispatch(shard):
    return work_docs(shard) if shard[0] == 'docs' else work(shard)


def run_case(entry, plan, L, doc=None):
    """-> (findings, situation, skip) or None when the document cannot be generated"""
    if doc is None:
        doc = build(entry, plan)
    if doc is None:
        return None
    text = doc.text(eol=(plan or {}).get('eol', '\n'))
    items, exc = observe(text, L)
    return judge(doc, text, L, items, exc)


def evaluate(case):
    """re-executes one (document, loop id) with the real map loader; the document is rebuilt from its plan and must
    reproduce the recorded text (the text is kept in the case for the reader's benefit)"""
    doc = build(case['entry'], case['plan'])
    if doc is None:
        return []
    if case.get('text') is not None and doc.text(eol=case['plan'].get('eol', '\n')) != case['text']:
        raise RuntimeError('the generator no longer rebuilds the recorded document')
    return run_case(case['entry'], case['plan'], case['loop'], doc)[0]


def targets(entry, thorough):
    root = G.load(entry[4])
    loops = anchored_loops(root)
    if thorough:
        return loops
    out = []; seen = set()
    for n in loops:
        sig = signature(n)
        if n.id in ENVELOPE_LOOPS or sig not in seen:
            seen.add(sig); out.append(n)
    return out


def work(shard):
    ei, entry, paths, thorough = shard
    P = core.Part()
    root = G.load(entry[4])
    done = set()
    for path in paths:
        n = gen.find(root, path)
        # loop ids requested on every document of this loop: its own, the enclosing loops' (quick: the nearest
        # one), and none
        wanted = [n.id]
        a = real_parent(n)
        while a is not None and a.kind == 'loop':
            if a.id not in wanted and (thorough or len(wanted) < 2):
                wanted.append(a.id)
            a = real_parent(a)
        wanted.append(None)
        for pname, plan in placements(root, n):
            for ename, eplan in envelopes(n):
                full = dict(plan); full.update(eplan)
                doc = build(entry, full)
                if doc is None:
                    P.counters['ungeneratable or ambiguous: ' + pname] += 1
                    continue
                text = doc.text(eol='\n')
                for L in wanted:
                    key = (hash(text), L)
                    if key in done:
                        P.counters['same (document, loop id) reached by another placement'] += 1
                        continue
                    done.add(key)
                    P.n += 1
                    items, exc = observe(text, L, memo=True)
                    v, sit, skip = judge(doc, text, L, items, exc)
                    if skip:
                        P.counters['loop oracle skipped: ' + skip] += 1
                    if L is not None and sit.startswith('trees=0') and pname != 'minimal':
                        P.counters['placement produced no instance'] += 1
                    P.out('%s|%s|%s' % (lclass(L), pname, sit))
                    case = {'entry': list(entry), 'plan': full, 'loop': L, 'text': text}
                    for k, m in v:
                        P.bad(k, case, '%s %s%s: %s' % (entry[4], pname, ename, m))
                    if not v and len(P.samples) < 1 and L is not None and sit.startswith('trees=2'):
                        P.sample({'map': entry[4], 'loop': path, 'placement': pname + ename, 'segments': len(doc.segs), 'situation': sit})
    return P


def run(R):
    entries = corpus.one_entry_per_map()
    shards = []
    nloops = 0; nids = set()
    per_map = {}
    for ei, e in enumerate(entries):
        try:
            t = targets(e, R.thorough)
        except Exception:
            R.cov.setdefault('maps_unreadable', []).append(e[4])
            continue
        if build(e, {}) is None:
            R.cov.setdefault('maps_without_generatable_minimal_document', []).append(e[4])
            continue
        nloops += len(t)
        per_map[e[4]] = len(t)
        for n in t:
            nids.add((e[4], n.id))
        size = 2 if R.thorough else 3
        for ch in range(0, len(t), size):
            shards.append((ei, e, [n.path for n in t[ch:ch + size]], R.thorough))
    # big maps first, so that the pool drains evenly
    shards.sort(key=lambda s: -per_map[s[1][4]])
    for e in entries:
        if e[4] in per_map:
            nparts = 24 if R.thorough else 2
            for part in range(nparts):
                shards.append(('docs', e, part, nparts, R.thorough))
    R.pmap(dispatch, shards)
    R.cov['loops_per_map'] = per_map
    R.bounds = {'maps': len(per_map), 'loop nodes': nloops, 'distinct (map, loop id)': len(nids),
                'loops': 'every loop that begins with a segment, envelope loops included' if R.thorough else
                         'per map one loop per children-shape signature (usage, repeat, children kinds/usages/repeats, sibling situation, parent repeat) + all envelope loops',
                'placements': 'minimal(absent unless required), once, with-children, with-descendants, then-sibling, twice, twice-with-children, '
                              'in-repeated-parent, twice-in-repeated-parent, all-loops-of-this-id, everything; envelope loops: once, twice, in/twice-in repeated parent, everything(-twice), after a TA1 (x1, x2 interchanges x 2 groups)',
                'envelopes': 'each placement alone, with 2 sets, with 2 groups',
                'loop ids per document': 'the id of the placed loop, of %s, and None' % ('every enclosing loop' if R.thorough else 'its nearest enclosing loop'),
                'mixed files': 'an interchange of one map followed by one of another map / version, all ordered pairs of %s, read with every loop id present and None' % ', '.join(MIXED),
                'corpus family': ('every single deviation from the minimal document (gen.plans_d1) of every map' if R.thorough else
                                  '10 shapes per map (min, all, all-filled, last codes, 2 sets / groups / interchanges, all x 2 sets x 2 groups, all swapped, TA1 + 2 interchanges x 2 groups; for the 834: a 160-set document, LF / CRLF, one value lengthened by 0..29 characters so that terminators and line breaks meet the 8 KiB read boundaries)')
                                 + ', each read with every loop id occurring in it, one anchored loop id that does not occur, and None'}
    R.assumptions = ['structural validity is decided by the independent grammar: only documents whose reference parse (gen.selfcheck) reproduces the generating nodes are used; others are counted',
                     'layout is one segment per line with ~ * : delimiters (delimiter and layout independence is C12)',
                     'seg_count of ISA/GS/GE/IEA is not compared (outside any set); for SE both its true position and the suite-pinned reader convention (count of the last body segment) are accepted',
                     'wrapper loops that begin with a loop (e.g. DETAIL) must appear in the chain as the map path has them, but no instance identity is demanded of them',
                     'plain segment nodes are compared by content, position and line only (their parent attribute is a C10 matter)']
    return R.finish(LEVEL, 'one execution = one (document, loop id) read completely by iter_segments; distinct = (loop class, placement or corpus plan kind, expected tree situation)', exhaustive=True)
