"""writes MANIFEST.json from the table below (kept in one place so it is always valid)"""
import json, os
V = os.path.dirname(os.path.dirname(os.path.abspath(__file__)))
BASE = "cd /repo && /venv/bin/python -m pytest -ra -q -p no:cacheprovider --timeout=900 --continue-on-collection-errors"
CHECKS = {}
NA = {}


def chk(pid, level, text, note, technique, engine, design):
    CHECKS[pid] = dict(property_id=pid, quick_cmd='./check %s --tier quick' % pid,
                       thorough_cmd='./check %s --tier thorough' % pid,
                       evidence_file='/verif/evidence/%s.json' % pid,
                       replay_cmd_template='./check %s --replay {path}' % pid, engine=engine,
                       level_claimed=dict(category=level, text=text, design_ref=design),
                       level_note=note, technique=technique)


from mc.manifest_table import fill
fill(chk, NA)
ALL = ['C%02d' % i for i in range(1, 21)]
m = {
    "version": 1,
    "setup_cmd": "cd /verif && /venv/bin/python -B mc/selftest.py",
    "hooks": {"guard": "PYX12_VERIF", "enable": "no source hooks are needed: checks import /repo's working tree directly and observe through public entry points and module attributes (DESIGN 2.7)",
              "baseline_off_cmd": BASE, "source_commits": [], "add_only": True},
    "engines": [
        {"name": "E1", "path": "mc/core.py", "serves_properties": ["C01", "C07", "C12", "C13", "C14", "C15", "C16", "C17", "C18", "C20"],
         "kind_free_text": "deviation-bounded stateless explorer / complete product enumeration on the real code"},
        {"name": "E2", "path": "mc/bfs.py", "serves_properties": ["C02", "C04", "C10", "C11", "C17"],
         "kind_free_text": "explicit-state breadth-first search over the real transition function paired with a reference model"},
        {"name": "E3", "path": "mc/grammar.py", "serves_properties": ["C02", "C03", "C05", "C06", "C08", "C09", "C12", "C19"],
         "kind_free_text": "independent map-grammar reader, conformant-document enumerator and fault catalogue"}],
    "checks": [CHECKS[k] for k in ALL if k in CHECKS],
    "not_applicable": [{"property_id": k, "reason": NA.get(k, "check not built yet in this session; see DESIGN.md section 3 for the planned design")} for k in ALL if k not in CHECKS],
    "notes": "All checks are bounded exhaustive explorations run on the implementation itself (python, /venv/bin/python). VERIF_SEED only rotates shard order; the explored set is seed independent. Known findings: /verif/known_findings.json",
}
json.dump(m, open(os.path.join(V, 'MANIFEST.json'), 'w'), indent=1)
print('MANIFEST.json written: %d checks, %d not_applicable' % (len(m['checks']), len(m['not_applicable'])))
