"""development helper: re-confirm detection of every kept seeded change on the CURRENT tree and the CURRENT checks.
usage: python -m mc.seedverify [name-prefix ...]   -> seeded/VERIFY.md
For each seeded/<name>: fresh scratch worktree of /repo HEAD, `git apply patch.diff` (3-way if needed), run the quick tier of the
change's own property against it (VERIF_REPO), expect exit 1 with a VIOLATION line; the worktree is removed afterwards."""
import sys, os, json, glob, subprocess, time
V = os.path.dirname(os.path.dirname(os.path.abspath(__file__)))
want = sys.argv[1:]
rows = []
for d in sorted(glob.glob(os.path.join(V, 'seeded', '*'))):
    name = os.path.basename(d)
    if not os.path.isdir(d) or (want and not any(name.startswith(w) for w in want)):
        continue
    meta = json.load(open(os.path.join(d, 'meta.json')))
    prop = meta['property']
    wt = '/tmp/seedverify_%s' % name
    subprocess.run(['git', '-C', '/repo', 'worktree', 'remove', '--force', wt], capture_output=True)
    r = subprocess.run(['git', '-C', '/repo', 'worktree', 'add', '--detach', wt, 'HEAD', '-q'], capture_output=True, text=True)
    status = ''
    try:
        a = subprocess.run(['git', '-C', wt, 'apply', os.path.join(d, 'patch.diff')], capture_output=True, text=True)
        if a.returncode:
            a = subprocess.run(['git', '-C', wt, 'apply', '--3way', os.path.join(d, 'patch.diff')], capture_output=True, text=True)
        if a.returncode:
            status = 'patch no longer applies to HEAD (a later fix: commit touched the same lines)'
        else:
            t0 = time.time()
            env = dict(os.environ, VERIF_REPO=wt, VERIF_OUT='/tmp/seed/out', VERIF_JOBS=os.environ.get('VERIF_JOBS', '10'))
            c = subprocess.run([os.path.join(V, 'check'), prop], env=env, capture_output=True, text=True)
            keys = [l.strip()[4:90] for l in c.stdout.splitlines() if l.strip().startswith('key=')]
            status = 'exit %d, %d VIOLATION lines, %.0fs; %s' % (c.returncode, sum(1 for l in c.stdout.splitlines() if l.startswith('VIOLATION')), time.time() - t0, keys[:1])
    finally:
        subprocess.run(['git', '-C', '/repo', 'worktree', 'remove', '--force', wt], capture_output=True)
    rows.append((name, prop, status))
    print(name, prop, status, flush=True)
subprocess.run(['git', '-C', '/repo', 'worktree', 'prune'])
if want and os.environ.get('SEEDVERIFY_APPEND') and os.path.exists(os.path.join(V, 'seeded', 'VERIFY.md')):
    with open(os.path.join(V, 'seeded', 'VERIFY.md'), 'a') as f:
        for r in rows:
            f.write('| `%s` | %s | %s |\n' % r)
if not want:
    with open(os.path.join(V, 'seeded', 'VERIFY.md'), 'w') as f:
        f.write('# Detection re-confirmed on the final tree\n\nEach kept patch applied to a fresh worktree of /repo HEAD, quick tier of its own property run against it (`python -m mc.seedverify`).\n\n| seeded change | property | result |\n|---|---|---|\n')
        for r in rows:
            f.write('| `%s` | %s | %s |\n' % r)
