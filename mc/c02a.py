"""
C02(a): walker automaton vs grammar automaton.  Explicit-state BFS where a state is the pair
  model: stack of open loop instances (loop, index of last matched child, count of that child), last segment node
  impl : (index of the current map node, NodeCounter contents)  -- plain data, restored by snapshot
and a transition is one call of the real walk_tree.walk() with a synthesised segment for a
grammar-permitted successor.  Oracle: the walker lands on the intended node and reports nothing.
Also (C03 structural faults): from every state, every segment node of the map that is NOT a
permitted successor and is not matched by anything in scan order must be refused.
"""
import hashlib, multiprocessing
from mc import core, gen, grammar as G

CAP_FINITE = 10      # repeat counts are driven to max when max <= 10
CAP_OTHER = 2        # otherwise to 2


def eff_children(loop):
    out = []
    for c in loop.children:
        if gen.transparent(c):
            out.extend(eff_children(c))
        else:
            out.append(c)
    return out


_eff = {}


def effc(loop):
    k = id(loop)
    if k not in _eff:
        _eff[k] = eff_children(loop)
    return _eff[k]


def cap(n):
    m = G.maxrep(n)
    return m if m <= CAP_FINITE else CAP_OTHER


def succ(frames):
    """frames: tuple of (loop node, last idx, count of child[last]).  yield (target seg node, new frames)"""
    res = []
    i = len(frames) - 1
    fr = list(frames)
    while i >= 0:
        loop, last, cnt = fr[i]
        ch = effc(loop)
        blocked = False
        for j in range(last, len(ch)):
            c = ch[j]
            if c.usage == 'N':
                continue
            if j == last:
                first_of_loop = (loop.kind == 'loop' and j == 0 and c.kind == 'seg')
                if cnt < cap(c) and not first_of_loop:
                    base = fr[:i] + [(loop, j, cnt + 1)]
                    if c.kind == 'seg':
                        res.append((c, tuple(base)))
                    else:
                        res.append((effc(c)[0], tuple(base + [(c, 0, 1)])))
                if c.usage == 'R' and cnt < 1:
                    blocked = True
                    break
            else:
                base = fr[:i] + [(loop, j, 1)]
                if c.kind == 'seg':
                    res.append((c, tuple(base)))
                else:
                    f0 = effc(c)[0]
                    if f0.kind == 'seg':
                        res.append((f0, tuple(base + [(c, 0, 1)])))
                if c.usage == 'R':
                    blocked = True
                    break
        if blocked:
            break
        i -= 1
        fr = fr[:i + 1]
    return res


class MapCtx(object):
    def __init__(self, fname):
        from mc import impl
        self.fname = fname
        self.g = G.load(fname)
        self.m = impl.load_map(fname)
        self.rnodes = impl.all_nodes(self.m)                 # real nodes (loops and segments), map order
        self.rsegs = [n for n in self.rnodes if n.is_segment()]
        self.gsegs = G.segments(self.g)
        assert len(self.rsegs) == len(self.gsegs) and all(a.id == b.id for a, b in zip(self.rsegs, self.gsegs))
        self.gidx = dict((id(s), i) for i, s in enumerate(self.gsegs))
        self.gloops = dict((n.path, n) for n in G.walk(self.g) if n.kind in ('loop', 'root'))
        self.synth = {}

    def seg_for(self, gnode):
        k = id(gnode)
        if k not in self.synth:
            try:
                self.synth[k] = gen.Doc_flat(gen.mkseg(gnode, {}))
            except gen.Ungeneratable:
                self.synth[k] = None
        return self.synth[k]


_ctx = {}


def ctx(fname):
    if fname not in _ctx:
        _ctx[fname] = MapCtx(fname)
    return _ctx[fname]


def enc_frames(frames):
    return tuple((l.path, j, c) for (l, j, c) in frames)


def dec_frames(C, enc):
    return tuple((C.gloops[p], j, c) for (p, j, c) in enc)


def model_key(frames):
    return tuple((l.path, j, min(c, cap(effc(l)[j]))) for (l, j, c) in frames)


def impl_key(C, frames, nidx, counts):
    """projection of the counter the walker can still read: counts of open loops and of the children at/after the
    current position of each open loop (earlier ones are never read again and are reset on loop re-entry)"""
    keep = {}
    live = set()
    for (l, j, c) in frames:
        if l.kind == 'loop':
            live.add(l.path)
        for k in effc(l)[j:]:
            live.add(k.path)
    for p, v in counts.items():
        base = p.split('[')[0]
        if base in live and v:
            keep[p] = min(v, CAP_FINITE + 1)
    return (nidx, tuple(sorted(keep.items())))


def do_walk(C, nidx, counts, flat):
    from pyx12.map_walker import walk_tree
    from mc import impl
    w = walk_tree(initialCounts=dict(counts))
    errh = impl.errh_list()
    seg = impl.mkseg(flat)
    node = C.rsegs[nidx]
    res = w.walk(node, seg, errh, 5, 5, None)
    cnt = dict((k.format(), v) for k, v in w.counter._dict.items())
    return res, errh, cnt


def step(C, frames, cur, nidx, counts, tgt, nframes):
    """one positive transition -> (new impl state or None, violations, outcome)"""
    flat = C.seg_for(tgt)
    if flat is None:
        return None, [], 'ungeneratable'
    # grammar must itself assign tgt under first-match (else the map is ambiguous here)
    stack, pos = gen.state_after(cur)
    fm = gen.scan_from(stack, pos, flat)
    if fm is None or fm[2] is not tgt:
        return None, [], 'ambiguous'
    try:
        (n2, pop, push), errh, cnt = do_walk(C, nidx, counts, flat)
    except Exception as e:
        return None, [('C02|a|%s|raises %s@%s' % (C.fname, type(e).__name__, core.where(e)), 'walk from %s with %s raised %r' % (cur.path, '*'.join(flat), e))], 'exc'
    v = []
    if n2 is None or n2.get_path().split('[')[0] != tgt.path:
        v.append(('C02|a|%s|lands-elsewhere %s' % (C.fname, tgt.path), 'from %s, segment %s (permitted successor %s) was matched to %s; errors %r'
                  % (cur.path, '*'.join(flat), tgt.path, n2.get_path() if n2 is not None else None, errh.err_seg[:2])))
    elif errh.get_error_count():
        e0 = (errh.err_seg + errh.err_ele + errh.err_st)[0]
        v.append(('C02|a|%s|error %s at %s' % (C.fname, e0[0], tgt.path), 'from %s, permitted successor %s (%s) drew %r' % (cur.path, tgt.path, '*'.join(flat), e0[:2])))
    else:
        # pop/push lists must spell the path difference
        want_pop, want_push = path_diff(cur, tgt, frames, nframes)
        got_pop = [n.get_path() for n in pop]
        got_push = [n.get_path() for n in push]
        if (got_pop, got_push) != (want_pop, want_push):
            v.append(('C02|a|%s|pop-push-lists' % C.fname, 'from %s to %s: walker pop=%r push=%r, grammar pop=%r push=%r' % (cur.path, tgt.path, got_pop, got_push, want_pop, want_push)))
    if v:
        return None, v, 'bad'
    return (C.gidx[id(tgt)], cnt), [], 'ok'


def loops_of(seg):
    out = []
    n = seg.parent
    while n is not None and n.kind == 'loop':
        out.append(n.path)
        n = n.parent
    out.reverse()
    return out


def path_diff(cur, tgt, frames, nframes):
    """loops popped (innermost first) and pushed (outermost first) going from cur to tgt, wrappers included;
    a repeat of the innermost common loop instance pops and pushes that loop"""
    a = loops_of(cur); b = loops_of(tgt)
    k = 0
    while k < len(a) and k < len(b) and a[k] == b[k]:
        k += 1
    # new instance of a loop on the common prefix?  (frames differ in instance only when the target opens its loop)
    if tgt is tgt.parent.children[0] and k == len(b):
        # tgt starts loop b[-1]; common prefix covers it: repeat of that loop (and whatever is open below it)
        k = len(b) - 1
        # wrappers directly above stay open
    pop = list(reversed(a[k:]))
    push = b[k:]
    return pop, push


def explore_map(args):
    fname, level_states, negatives = args
    C = ctx(fname)
    P = core.Part()
    out = []
    for (encf, curi, nidx, counts, do_neg) in level_states:
        frames = dec_frames(C, encf)
        cur = C.gsegs[curi]
        succs = succ(frames)
        allowed = set()
        for tgt, nf in succs:
            if tgt.id in ('ISA', 'GS'):
                continue
            allowed.add(id(tgt))
            P.n += 1; P.transitions += 1
            st, viol, outcome = step(C, frames, cur, nidx, counts, tgt, nf)
            P.counters['a:' + outcome] += 1
            for k, m in viol:
                P.bad(k, {'part': 'a', 'map': fname, 'frames': list(encf), 'cur': curi, 'nidx': nidx, 'counts': counts,
                          'target': C.gidx[id(tgt)]}, m)
            if st is not None:
                out.append((enc_frames(nf), st[0], st[0], st[1], model_key(nf), impl_key(C, nf, st[0], st[1])))
        if negatives and do_neg:
            neg(C, P, frames, cur, nidx, counts, allowed, encf, curi)
        if negatives:
            neg_struct(C, P, frames, cur, nidx, counts, encf, curi)
    return fname, out, P


def neg(C, P, frames, cur, nidx, counts, allowed, encf, curi):
    """segments that no node in scan order matches must be refused with 'not found' (code 1) and node None"""
    stack, pos = gen.state_after(cur)
    seen_ids = set()
    for tgt in C.gsegs:
        if id(tgt) in allowed or tgt.id in ('ISA', 'GS', 'IEA', 'GE', 'ST', 'SE'):
            continue
        flat = C.seg_for(tgt)
        if flat is None:
            continue
        key = tuple(flat[:4])
        if key in seen_ids:
            continue
        seen_ids.add(key)
        if gen.scan_from(stack, pos, flat) is not None:
            continue          # something in scan order matches it: a different fault kind (count / usage / order)
        P.n += 1; P.transitions += 1
        try:
            (n2, pop, push), errh, cnt = do_walk(C, nidx, counts, flat)
        except Exception as e:
            P.bad('C02|a|neg|%s|raises %s@%s' % (C.fname, type(e).__name__, core.where(e)),
                  {'part': 'a', 'neg': True, 'map': C.fname, 'frames': list(encf), 'cur': curi, 'nidx': nidx, 'counts': counts, 'target': C.gidx[id(tgt)]},
                  'walk with out-of-place %s raised %r' % ('*'.join(flat), e))
            continue
        codes = [e[0] for e in errh.err_seg]
        P.counters['a:neg'] += 1
        if n2 is not None or '1' not in codes:
            P.bad('C02|a|neg|%s|out-of-place segment not refused' % C.fname,
                  {'part': 'a', 'neg': True, 'map': C.fname, 'frames': list(encf), 'cur': curi, 'nidx': nidx, 'counts': counts, 'target': C.gidx[id(tgt)]},
                  'from %s, segment %s matches no node in scan order, walker returned %s with segment errors %r' % (cur.path, '*'.join(flat), n2.get_path() if n2 is not None else None, codes))


def neg_struct(C, P, frames, cur, nidx, counts, encf, curi):
    """single structural faults at walker level, with exact expectations (C03 catalogue):
       beyond-max   the innermost matched segment again when its count has reached max_use        -> lands on it, code 5
       beyond-repeat the first segment of the innermost loop again when its instances reached repeat -> lands on it, code 4
       skip-required a later sibling while a required sibling in between has not occurred          -> lands on it, code 3
       not-used     a sibling the map marks N                                                       -> lands on it, code 2"""
    loop, last, cnt = frames[-1]
    ch = effc(loop)
    stack, pos = gen.state_after(cur)
    trials = []
    c = ch[last]
    if c.kind == 'seg' and not (loop.kind == 'loop' and last == 0) and G.maxrep(c) <= CAP_FINITE and cnt == G.maxrep(c):
        trials.append(('beyond-max', c, '5'))
    if loop.kind == 'loop' and len(frames) >= 2 and G.maxrep(loop) <= CAP_FINITE and frames[-2][2] == G.maxrep(loop) and ch[0].kind == 'seg':
        trials.append(('beyond-repeat', ch[0], '4'))
    seen_req = None
    for j in range(last + 1, len(ch)):
        k = ch[j]
        if k.kind != 'seg':
            if k.usage == 'R':
                break
            continue
        if k.usage == 'N':
            trials.append(('not-used', k, '2'))
            continue
        if seen_req is not None:
            if k.pos == seen_req.pos:
                continue          # same-position siblings may come in any order: nothing is missing yet
            trials.append(('skip-required', k, '3'))
            break
        if k.usage == 'R':
            seen_req = k
    for kind, tgt, code in trials:
        if tgt.id in ('ISA', 'GS', 'IEA', 'GE', 'ST', 'SE'):
            continue
        if kind == 'not-used':
            import copy
            forced = copy.copy(tgt); forced.usage = 'S'
            try:
                flat = gen.Doc_flat(gen.mkseg(forced, {}))
            except gen.Ungeneratable:
                continue
        else:
            flat = C.seg_for(tgt)
        if flat is None:
            continue
        fm = gen.scan_from(stack, pos, flat)
        if fm is None or fm[2] is not tgt:
            continue             # grammar itself would assign another node: ambiguous, not a single fault
        P.n += 1; P.transitions += 1
        case = {'part': 'a', 'struct': kind, 'map': C.fname, 'frames': list(encf), 'cur': curi, 'nidx': nidx, 'counts': counts, 'target': C.gidx[id(tgt)]}
        try:
            (n2, pop, push), errh, cnt2 = do_walk(C, nidx, counts, flat)
        except Exception as e:
            P.bad('C02|a|neg|%s|%s raises %s@%s' % (C.fname, kind, type(e).__name__, core.where(e)), case, 'walk with %s raised %r' % ('*'.join(flat), e))
            continue
        codes = [e[0] for e in errh.err_seg]
        P.counters['a:neg-' + kind] += 1
        if n2 is None or n2.get_path().split('[')[0] != tgt.path or code not in codes:
            P.bad('C02|a|neg|%s|%s not reported as code %s' % (C.fname, kind, code), case,
                  'from %s, %s segment %s: walker returned %s with segment errors %r (expected node %s and code %s)'
                  % (cur.path, kind, '*'.join(flat), n2.get_path() if n2 is not None else None, codes, tgt.path, code))


def evaluate(case):
    if case.get('struct'):
        C = ctx(case['map'])
        frames = dec_frames(C, [tuple(x) for x in case['frames']])
        P = core.Part()
        neg_struct(C, P, frames, C.gsegs[case['cur']], case['nidx'], case['counts'], tuple(tuple(x) for x in case['frames']), case['cur'])
        return [(k, v[2]) for k, v in P.viol.items()]
    C = ctx(case['map'])
    frames = dec_frames(C, [tuple(x) for x in case['frames']])
    cur = C.gsegs[case['cur']]
    tgt = C.gsegs[case['target']]
    P = core.Part()
    if case.get('neg'):
        allowed = set(id(t) for t, _ in succ(frames))
        allowed.discard(id(tgt))
        others = set(id(t) for t in C.gsegs if t is not tgt)
        neg(C, P, frames, cur, case['nidx'], case['counts'], others, tuple(), case['cur'])
        return [(k, v[2]) for k, v in P.viol.items()]
    for t, nf in succ(frames):
        if t is tgt:
            st, viol, outcome = step(C, frames, cur, case['nidx'], case['counts'], tgt, nf)
            return viol
    return []


def initial(C):
    from pyx12.map_walker import walk_tree
    g = C.g
    isa = [c for c in g.children if c.id == 'ISA_LOOP'][0]
    gsl = [c for c in isa.children if c.id == 'GS_LOOP'][0]
    gs = gsl.children[0]
    w = walk_tree()
    w.forceWalkCounterToLoopStart('/ISA_LOOP', '/ISA_LOOP/ISA')
    w.forceWalkCounterToLoopStart('/ISA_LOOP/GS_LOOP', '/ISA_LOOP/GS_LOOP/GS')
    counts = dict((k.format(), v) for k, v in w.counter._dict.items())
    frames = ((g, effc(g).index(isa), 1), (isa, effc(isa).index(gsl), 1), (gsl, 0, 1))
    return (enc_frames(frames), C.gidx[id(gs)], C.gidx[id(gs)], counts, True)


def run_part(R, files=None):
    """level-synchronous BFS per map; all maps advance together so the pool stays busy"""
    entries = gen.selectable_entries()
    fnames = files or sorted(set(e[4] for e in entries))
    max_states = 60000 if R.thorough else 1500
    negatives = True
    seen = {}
    negdone = {}
    frontier = {}
    stats = {}
    for f in fnames:
        try:
            C = ctx(f)
        except Exception as e:
            stats[f] = {'skipped': 'map does not load: %s' % type(e).__name__}
            continue
        st0 = initial(C)
        frontier[f] = [st0]
        seen[f] = set()
        negdone[f] = set()
        stats[f] = {'states': 1, 'transitions': 0, 'levels': 0, 'capped': False}
    mp = multiprocessing.get_context('fork')
    pool = mp.Pool(core.NPROC)
    total = core.Part()
    try:
        while any(frontier.values()):
            jobs = []
            for f, fr in frontier.items():
                if not fr:
                    continue
                for ch in core.chunks(R.order(fr), 8):
                    jobs.append((f, ch, negatives))
            newf = dict((f, []) for f in frontier)
            for res in pool.imap_unordered(_explore, jobs):
                if isinstance(res, tuple) and res and res[0] == 'HARNESS':
                    R.harness_errors.append(res[1]); continue
                f, out, P = res
                R.merge(P)
                stats[f]['transitions'] += P.transitions
                for (encf, curi, nidx, counts, mk, ik) in out:
                    key = hashlib.sha1(repr((mk, ik)).encode()).digest()[:12]
                    if key in seen[f]:
                        continue
                    if len(seen[f]) >= max_states:
                        stats[f]['capped'] = True
                        continue
                    seen[f].add(key)
                    newf[f].append((encf, curi, nidx, counts))
            for f in newf:
                newf[f].sort(key=lambda s: repr(s[0]) + repr(sorted(s[3].items())))
                tagged = []
                for s4 in newf[f]:
                    first = s4[1] not in negdone[f]
                    negdone[f].add(s4[1])
                    tagged.append(s4 + (first,))
                newf[f] = tagged
            for f in newf:
                if newf[f]:
                    stats[f]['levels'] += 1
                stats[f]['states'] = len(seen[f]) + 1
            frontier = newf
    finally:
        pool.terminate(); pool.join()
    st = core.Part()
    st.states = sum(s.get('states', 0) for s in stats.values())
    R.merge(st)
    for f, s in stats.items():
        if s.get('capped'):
            R.caps.append('C02(a) %s: state cap %d reached' % (f, max_states))
    return {'maps': stats, 'count_caps': 'child/loop counts driven to max when max<=%d, else to %d' % (CAP_FINITE, CAP_OTHER), 'negatives': negatives}


def _explore(args):
    try:
        return explore_map(args)
    except Exception as e:
        import traceback
        return ('HARNESS', ''.join(traceback.format_exception(type(e), e, e.__traceback__)))
