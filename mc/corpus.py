"""
Shared document corpora for the pipeline properties (C05, C06, C07, C08, C09, C12, C19).
Every corpus is a deterministic, complete enumeration of a described family (no sampling).
Items are (label, text, info) with info a small dict (what the oracle may rely on).
"""
import copy, itertools
from mc import gen, grammar as G, ref


def one_entry_per_map():
    seen = set(); out = []
    for e in gen.selectable_entries():
        if e[4] in seen:
            continue
        seen.add(e[4]); out.append(e)
    return out


def build_ok(entry, plan):
    try:
        d = gen.build(entry, plan)
    except gen.Ungeneratable:
        return None
    if gen.selfcheck(d):
        return None
    return d


def valid_docs(thorough=False, entries=None):
    """conformant documents: a handful of shapes per index entry (quick), all d<=1 plans (thorough)"""
    for e in (entries or one_entry_per_map()):
        if thorough:
            plans = list(gen.plans_d1(e))
        else:
            plans = [('min', {}), ('all-filled', {'all': True, 'fill_all': True}), ('all', {'all': True}), ('two-sets', {'sets': 2}),
                     ('two-groups', {'groups': 2}), ('two-interchanges', {'interchanges': 2}), ('lastcode', {'code': 'last'})]
        for name, plan in plans:
            d = build_ok(e, plan)
            if d is not None:
                yield ('valid:%s:%s' % (e[4], name), d, {'entry': e, 'valid': True})


def fault_docs(thorough=False, entries=None):
    """single-fault documents from the C03 catalogue: per map one target per fault kind (quick) / per definition signature (thorough)"""
    from mc import c03
    for e in (entries or one_entry_per_map()):
        seen = set()
        try:
            cases = list(c03.cases_for_entry(e, False))
        except Exception:
            continue
        root = G.load(e[4])
        for c in cases:
            kind = c['kind'].split(':')[0]
            if not thorough:
                if kind in seen:
                    continue
            case = dict(c, entry=list(e))
            node = G.segments(root)[case['ord']] if 'ord' in case else gen.find(root, case['path'])
            try:
                if case['what'] == 'ele':
                    d, exp, st = c03.inject_ele(e, node, case['seq'], case.get('sub'), case['kind'], None)
                elif case['what'] == 'seg':
                    d, exp, st = c03.inject_seg(e, node, case['kind'])
                else:
                    d, exp, st = c03.inject_loop(e, node, case['kind'])
            except gen.Ungeneratable:
                continue
            seen.add(kind)
            yield ('fault:%s:%s:%s' % (e[4], c['kind'], c['path'].rsplit('/', 1)[-1] + str(c.get('seq', ''))), d, {'entry': e, 'valid': False, 'exp': exp})


def shape_docs(entries=None):
    """interchanges x groups x sets in {1,2,3}^3, clean and with one faulty set at each position class"""
    ents = entries or [e for e in one_entry_per_map() if e[4] in ('834.4010.X095.A1.xml', '835.5010.X221.A1.xml')]
    for e in ents:
        for ni, ng, ns in itertools.product((1, 2, 3), repeat=3):
            d = build_ok(e, {'interchanges': ni, 'groups': ng, 'sets': ns})
            if d is None:
                continue
            yield ('shape:%s:%dx%dx%d' % (e[4], ni, ng, ns), d, {'entry': e, 'valid': True})
            nsets = ni * ng * ns
            for bad in sorted(set([0, nsets // 2, nsets - 1])):
                d2 = copy.deepcopy(d)
                k = -1
                for i, s in enumerate(d2.segs):
                    if s[0] == 'ST':
                        k += 1
                        if k == bad:
                            # too many elements on the first body segment of that set
                            d2.segs[i + 1] = d2.segs[i + 1] + [''] * 40 + ['A']
                            break
                yield ('shape:%s:%dx%dx%d:bad%d' % (e[4], ni, ng, ns, bad), d2, {'entry': e, 'valid': False, 'badset': bad})


def suite_docs():
    import pyx12.test.x12testdata as td
    for k in sorted(td.datafiles):
        v = td.datafiles[k]
        if isinstance(v, dict) and 'source' in v:
            yield ('suite:' + k, v['source'], {})


def text_of(item):
    label, d, info = item
    return d if isinstance(d, str) else d.text(eol='\n')


# ----- structural mutation operators (C07 and as a source of multiply-faulty documents) -----------------
def split_segments(text):
    """(header delimiters, list of raw segment strings without terminator)"""
    seg, ele, sub = ref.delims(text)
    parts = text.split(seg)
    return (seg, ele, sub), [p.lstrip('\r\n') for p in parts[:-1]], parts[-1]


def join_segments(d, segs, eol='\n'):
    return ''.join(s + d[0] + eol for s in segs)


def mutations(text, ops=None):
    """every single structural mutation of `text` at every segment position -> (label, new text)"""
    d, segs, tail = split_segments(text)
    seg_t, ele, sub = d
    ids = sorted(set(s.split(ele)[0] for s in segs))
    n = len(segs)
    for i in range(n):
        sid = segs[i].split(ele)[0]
        if i > 0:
            yield ('delete@%d:%s' % (i, sid), join_segments(d, segs[:i] + segs[i + 1:]))
            yield ('duplicate@%d:%s' % (i, sid), join_segments(d, segs[:i + 1] + [segs[i]] + segs[i + 1:]))
            if i + 1 < n:
                yield ('swap@%d:%s' % (i, sid), join_segments(d, segs[:i] + [segs[i + 1], segs[i]] + segs[i + 2:]))
            yield ('truncate-after@%d:%s' % (i, sid), join_segments(d, segs[:i + 1]))
            yield ('retag-ZZZ@%d:%s' % (i, sid), join_segments(d, segs[:i] + ['ZZZ' + segs[i][len(sid):]] + segs[i + 1:]))
            yield ('bare@%d:%s' % (i, sid), join_segments(d, segs[:i] + [sid] + segs[i + 1:]))
            yield ('extra-elements@%d:%s' % (i, sid), join_segments(d, segs[:i] + [segs[i] + (ele + 'A') * 20] + segs[i + 1:]))
            yield ('extra-components@%d:%s' % (i, sid), join_segments(d, segs[:i] + [segs[i] + (sub + 'A') * 3] + segs[i + 1:]))
            yield ('trailing-empty-elements@%d:%s' % (i, sid), join_segments(d, segs[:i] + [segs[i] + ele + ele] + segs[i + 1:]))
            yield ('trailing-empty-component@%d:%s' % (i, sid), join_segments(d, segs[:i] + [segs[i] + sub] + segs[i + 1:]))
            # a composite cut short: only its first k components are sent (a required later component is then missing)
            parts_ = segs[i].split(ele)
            for j in range(1, len(parts_)):
                comps_ = parts_[j].split(sub)
                for k in range(1, len(comps_)):
                    p2_ = list(parts_); p2_[j] = sub.join(comps_[:k])
                    yield ('cut-composite@%d:%s%02d-%d' % (i, sid, j, k), join_segments(d, segs[:i] + [ele.join(p2_)] + segs[i + 1:]))
                    if k >= 2:
                        p3_ = list(parts_); p3_[j] = sub.join(comps_[:k - 1] + [''])
                        yield ('cut-composite-keep-separator@%d:%s%02d-%d' % (i, sid, j, k), join_segments(d, segs[:i] + [ele.join(p3_)] + segs[i + 1:]))
            yield ('long-element@%d:%s' % (i, sid), join_segments(d, segs[:i] + [segs[i] + ele + 'A' * 9000] + segs[i + 1:]))
            for orphan in ('SE' + ele + '1' + ele + '0001', 'GE' + ele + '1' + ele + '1', 'IEA' + ele + '1' + ele + '000000001',
                           'ST' + ele + '837' + ele + '0009', 'GS' + ele + 'HC' + ele + 'S' + ele + 'R' + ele + '20040102' + ele + '1200' + ele + '9' + ele + 'X' + ele + '004010X098A1',
                           'SE', 'GE', 'IEA', 'HL' + ele + 'x' + ele + 'y' + ele + '20' + ele + '1', 'LX' + ele + 'x'):
                yield ('insert-%s@%d' % (orphan.split(ele)[0] + ('-bare' if ele not in orphan else ''), i), join_segments(d, segs[:i + 1] + [orphan] + segs[i + 1:]))
            # an interchange acknowledgement (legal only between ISA and GS) and an unknown segment, well formed and not
            for name, orphan in (('TA1', 'TA1' + ele + '000000001' + ele + '040102' + ele + '1200' + ele + 'A' + ele + '000'),
                                 ('TA1-bad', 'TA1' + ele + '000000001' + ele + '04010277' + ele + '1200' + ele + 'Q' + ele + '000' + ele + 'A'),
                                 ('ZZZ', 'ZZZ' + ele + '1')):
                yield ('insert-%s@%d' % (name, i), join_segments(d, segs[:i + 1] + [orphan] + segs[i + 1:]))
            yield ('extra-elements-100@%d:%s' % (i, sid), join_segments(d, segs[:i] + [segs[i] + (ele + 'A') * 100] + segs[i + 1:]))
            if segs[i].count(ele) > 1:
                yield ('first-element-only@%d:%s' % (i, sid), join_segments(d, segs[:i] + [ele.join(segs[i].split(ele)[:2])] + segs[i + 1:]))
            yield ('empty-line@%d' % i, join_segments(d, segs[:i + 1]) + d[0] + join_segments(d, segs[i + 1:]))
            yield ('blank-line@%d' % i, join_segments(d, segs[:i + 1]) + '  ' + d[0] + join_segments(d, segs[i + 1:]))
            if sid in ('SE', 'GE', 'IEA', 'HL', 'LX'):
                parts = segs[i].split(ele)
                for v in ('x', '', '99999999999999999999', '-1', '1.5'):
                    p2 = list(parts)
                    if len(p2) > 1:
                        p2[1] = v
                        yield ('count-%s@%d:%s' % (v or 'empty', i, sid), join_segments(d, segs[:i] + [ele.join(p2)] + segs[i + 1:]))
            for other in ids:
                if other != sid and other in ('ST', 'SE', 'GS', 'GE', 'HL', 'CLM', 'NM1', 'BHT', 'LX', 'IEA'):
                    yield ('retag-%s@%d:%s' % (other, i, sid), join_segments(d, segs[:i] + [other + segs[i][len(sid):]] + segs[i + 1:]))


def envelope_docs(entries=None):
    """properly nested documents with exactly one envelope discrepancy: a reused control number, a trailer whose
    id or count is wrong -- at every header / trailer of 1x1x3 and 2x2x2 shaped documents"""
    ents = entries or [e for e in one_entry_per_map() if e[4] in ('834.4010.X095.A1.xml', '835.5010.X221.A1.xml')]
    for e in ents:
        for shape in ({'sets': 3}, {'interchanges': 2, 'groups': 2, 'sets': 2}):
            base = build_ok(e, shape)
            if base is None:
                continue
            tag = '%dx%dx%d' % (shape.get('interchanges', 1), shape.get('groups', 1), shape.get('sets', 1))
            prev = {}
            for i, s in enumerate(base.segs):
                k = s[0]
                muts = []
                if k in ('ISA', 'GS', 'ST'):
                    pos = {'ISA': 13, 'GS': 6, 'ST': 2}[k]
                    if k in prev:
                        muts.append(('reuse-id', pos, base.segs[prev[k]][pos]))
                    prev[k] = i
                    if k == 'ISA':
                        prev.pop('GS', None); prev.pop('ST', None)
                    if k == 'GS':
                        prev.pop('ST', None)
                elif k in ('SE', 'GE', 'IEA'):
                    muts.append(('wrong-id', 2, '9' + s[2][1:] if not s[2].startswith('9') else '8' + s[2][1:]))
                    muts.append(('count+1', 1, str(int(s[1]) + 1)))
                    muts.append(('count-1', 1, str(int(s[1]) - 1)))
                    muts.append(('count-x', 1, 'x'))
                for (name, pos, val) in muts:
                    d = copy.deepcopy(base)
                    d.segs[i][pos] = val
                    if name == 'reuse-id':
                        # keep the trailer consistent with its own header: the only discrepancy is the reuse
                        want = {'ISA': 'IEA', 'GS': 'GE', 'ST': 'SE'}[k]
                        depth = 0
                        for j in range(i + 1, len(d.segs)):
                            if d.segs[j][0] == k:
                                depth += 1
                            elif d.segs[j][0] == want:
                                if depth == 0:
                                    d.segs[j][2] = val
                                    break
                                depth -= 1
                    yield ('envelope:%s:%s:%s@%d:%s' % (e[4], tag, name, i, k), d, {'entry': e, 'valid': False})


def address_docs(entries=None):
    """sender and receiver identified under DIFFERENT qualifiers (ISA05 != ISA07): 1 and 2 interchanges"""
    ents = entries or [e for e in one_entry_per_map() if e[4] in ('834.4010.X095.A1.xml', '835.5010.X221.A1.xml', '837.5010.X222.A1.xml')]
    for e in ents:
        for quals in (('30', 'ZZ'), ('ZZ', '01'), ('01', '30')):
            for ni in (1, 2):
                d = build_ok(e, {'interchanges': ni, 'isa_quals': quals})
                if d is not None:
                    yield ('address:%s:%s-%s:%d' % (e[4], quals[0], quals[1], ni), d, {'entry': e, 'valid': True})


def mixed_docs():
    """files holding two interchanges of different maps / versions, in both orders (clean, and with a faulty second set)"""
    names = ('834.4010.X095.A1.xml', '834.5010.X220.A1.xml', '835.5010.X221.A1.xml', '837.4010.X098.A1.xml')
    ents = dict((e[4], e) for e in one_entry_per_map())
    for a in names:
        for b in names:
            if a == b or a not in ents or b not in ents:
                continue
            d1 = build_ok(ents[a], {}); d2 = build_ok(ents[b], {'sets': 2})
            if d1 is None or d2 is None:
                continue
            d = gen.concat(d1, d2)
            yield ('mixed:%s+%s' % (a, b), d, {'valid': True})
            d3 = gen.concat(d1, d2)
            for i in range(len(d3.segs) - 1, -1, -1):
                if d3.segs[i][0] == 'ST':
                    d3.segs[i + 1] = d3.segs[i + 1] + [''] * 40 + ['A']
                    break
            yield ('mixed:%s+%s:bad-last-set' % (a, b), d3, {'valid': False})


def ta1_docs(entries=None):
    """interchanges that ask for a TA1 (ISA14 = 1): 1..3 interchanges, every non-empty subset of them asking"""
    ents = entries or [e for e in one_entry_per_map() if e[4] in ('834.4010.X095.A1.xml', '835.5010.X221.A1.xml')]
    for e in ents:
        for ni in (1, 2, 3):
            base = build_ok(e, {'interchanges': ni})
            if base is None:
                continue
            isas = [i for i, s in enumerate(base.segs) if s[0] == 'ISA']
            for mask in range(1, 2 ** ni):
                d = copy.deepcopy(base)
                for k, i in enumerate(isas):
                    if mask >> k & 1:
                        d.segs[i][14] = '1'
                yield ('ta1:%s:%d:%s' % (e[4], ni, format(mask, 'b').zfill(ni)), d, {'entry': e, 'valid': True})


HOSTILE = ['--', '1-2-3', '20040618-20040623-', '{x}', '}', '%s', '\\', '-.', '1e9', ' ', '00000000', '99999999', 'A' * 300]


def value_mutations(text, values=None, stride=1):
    """every element / component of every segment (after the ISA) replaced, one at a time, by every hostile value"""
    d, segs, tail = split_segments(text)
    seg_t, ele, sub = d
    k = 0
    for i in range(1, len(segs)):
        parts = segs[i].split(ele)
        for j in range(1, len(parts)):
            comps = parts[j].split(sub)
            for c in range(len(comps)):
                for v in (values or HOSTILE):
                    if v == comps[c] or any(x in v for x in d):
                        continue
                    k += 1
                    if k % stride:
                        continue
                    c2 = list(comps); c2[c] = v
                    p2 = list(parts); p2[j] = sub.join(c2)
                    yield ('value@%d:%s%02d%s=%r' % (i, parts[0], j, '-%d' % (c + 1) if len(comps) > 1 else '', v[:12]),
                           join_segments(d, segs[:i] + [ele.join(p2)] + segs[i + 1:]))


def governed_value_mutations(text, values=None):
    """elements whose format is governed by a date/time qualifier next to them (D8, RD8, TM, DT, D6): the governed
    value replaced by every hostile value, once per (segment id, position, qualifier) of the document"""
    d, segs, tail = split_segments(text)
    seg_t, ele, sub = d
    quals = set(gen.DT_BY_QUAL) - {'D6x'}
    seen = set()
    for i in range(1, len(segs)):
        parts = segs[i].split(ele)
        for j in range(1, len(parts)):
            comps = parts[j].split(sub)
            for c in range(len(comps)):
                if comps[c] not in quals:
                    continue
                # the governed value: next component of the same composite, else the next element
                if c + 1 < len(comps):
                    tj, tc = j, c + 1
                elif len(comps) == 1 and j + 1 < len(parts):
                    tj, tc = j + 1, 0
                else:
                    continue
                key = (parts[0], tj, tc, comps[c])
                if key in seen:
                    continue
                seen.add(key)
                for v in (values or HOSTILE):
                    if any(x in v for x in d):
                        continue
                    p2 = list(parts)
                    c2 = p2[tj].split(sub); c2[tc] = v; p2[tj] = sub.join(c2)
                    yield ('governed@%d:%s%02d[%s]=%r' % (i, parts[0], tj, comps[c], v[:12]),
                           join_segments(d, segs[:i] + [ele.join(p2)] + segs[i + 1:]))
