"""
E3: conformant-language enumerator + reference parser over the independent grammar (mc.grammar).

  plan  = dict(include=set(node paths), repeat={node path: n}, fill={(seg path, seq[, subseq])}, code='first'|'last',
               length='min'|'max', sets=1, groups=1, interchanges=1)
  build(entry, plan) -> Doc (segments with the grammar node that generated each one)
  parse(root, segs)  -> reference assignment of grammar nodes to segments (first match in position order)

Nothing here imports pyx12.
"""
import re, itertools
from mc import grammar as G

DT_BY_QUAL = {'D8': '20040102', 'RD8': '20040102-20040103', 'TM': '1200', 'DT': '200401021200', 'D6': '040102',
              'D6x': '040102'}


class Ungeneratable(Exception):
    pass


def transparent(n):
    """a loop whose first child is a loop has no instances of its own (DESIGN 2.4)"""
    return n.kind == 'loop' and n.children and n.children[0].kind == 'loop'


# ---------------------------------------------------------------------------------------------------
# values
# ---------------------------------------------------------------------------------------------------
def type_value(de, length='min', variant=0, shape=None):
    dt, mn, mx = G.dataele()[de]
    n = max(mn, 1) if length == 'min' else mx
    if length == 'odd':
        n = min(max(mn, 1) + 1, mx)        # one more than the minimum: the lengths between the two ends of a range
    if shape == 'lower' and dt == 'AN':
        # lower-case letters: legal in the extended character set only (the default)
        return ('a' if variant == 0 else 'b') * n
    if shape == 'signed':
        # legal but unusual spellings: a real with sign and bare fraction (sign and point do not count towards
        # the length), a string made of punctuation
        if dt == 'R':
            return '-.' + '5' * n
        if dt == 'AN':
            return ('-.' * n)[:n] if n > 1 else '-'
    if dt in ('AN', 'ID', 'B'):
        return ('A' if variant == 0 else 'B') * n
    if dt == 'R' or dt[0] == 'N':
        return ('1' if variant == 0 else '2') * n
    if dt == 'DT':
        for L, v in ((8, '20040102'), (6, '040102'), (12, '200401021200')):
            if mn <= L <= mx:
                return v
        raise Ungeneratable('DT length %d..%d' % (mn, mx))
    if dt == 'TM':
        # HHMM, HHMMSS, HHMMSSD (tenths), HHMMSSDD (hundredths): the shortest admissible ('min'), the longest ('max'), or the
        # odd one where the element allows it ('odd')
        fit = [L for L in (4, 6, 7, 8) if mn <= L <= mx]
        if length == 'odd' and 7 in fit:
            return '1200301'
        if fit:
            return '12003012'[:(fit[-1] if length == 'max' else fit[0])]
        raise Ungeneratable('TM length %d..%d' % (mn, mx))
    raise Ungeneratable('data type %s' % dt)


def fits(de, v):
    dt, mn, mx = G.dataele()[de]
    return mn <= len(v) <= mx


_same_id_cache = {}


def rival_codes(seg):
    """codes used by OTHER segment nodes of the same id anywhere in the map (to pick a distinguishing qualifier)"""
    root = seg
    while root.parent is not None:
        root = root.parent
    key = id(root)
    if key not in _same_id_cache:
        d = {}
        for s in G.segments(root):
            q, _ = G.qual_ele(s)
            d.setdefault(s.id, []).append((s, set(q.codes) if q is not None else None))
        _same_id_cache[key] = d
    out = set()
    for s, codes in _same_id_cache[key].get(seg.id, []):
        if s is not seg and codes:
            out |= codes
    return out


def ele_value(e, seg, plan, qual_for_1251=None):
    """a value satisfying the element's own definition"""
    de = e.de
    if de not in G.dataele():
        raise Ungeneratable('data element %s undefined' % de)
    if qual_for_1251 is not None and de == '1251':
        v = DT_BY_QUAL.get(qual_for_1251)
        if v is not None:
            return v
    codes = [c for c in e.codes if fits(de, c)]
    if e.codes:
        if not codes:
            raise Ungeneratable('no code of legal length for %s' % e.id)
        q, _ = G.qual_ele(seg)
        if q is e:
            rivals = rival_codes(seg)
            uniq = [c for c in codes if c not in rivals]
            if uniq:
                codes = uniq
        # date/time qualifier codes: prefer those whose format we can synthesise
        if de == '1250':
            good = [c for c in codes if c in DT_BY_QUAL]
            if good:
                codes = good
        return codes[0] if plan.get('code', 'first') == 'first' else codes[-1]
    if e.ext:
        ext = [c for c in G.extcodes().get(e.ext, []) if fits(de, c)]
        if not ext:
            raise Ungeneratable('no member of external set %s fits %s' % (e.ext, e.id))
        return ext[0] if plan.get('code', 'first') == 'first' else ext[-1]
    v = type_value(de, plan.get('length', 'min'), shape=plan.get('shape'))
    if e.regex and not re.search(e.regex, v):
        if re.search(e.regex, '123456789') and fits(de, '123456789'):
            v = '123456789'
        else:
            raise Ungeneratable('regex %s' % e.regex)
    return v


def mkseg(seg, plan):
    """[id, v1, v2 ...] (composites as lists) satisfying the segment's definition"""
    fill = plan.get('fill', ())
    allopt = plan.get('fill_all', False)
    vals = []
    qual = None
    for c in seg.children:
        if c.kind == 'ele':
            want = c.usage == 'R' or (c.usage == 'S' and (allopt or (seg.path, c.seq) in fill))
            if want:
                v = ele_value(c, seg, plan, qual)
                if c.de == '1250':
                    qual = v
                vals.append(v)
            else:
                vals.append('')
        else:
            want = c.usage == 'R' or (c.usage == 'S' and (allopt or any(f[0] == seg.path and f[1] == c.seq for f in fill)))
            if want:
                sub = []
                q2 = None
                for x in c.children:
                    w2 = x.usage == 'R' or (x.usage == 'S' and (allopt or (seg.path, c.seq, x.seq) in fill))
                    if w2:
                        v = ele_value(x, seg, plan, q2)
                        if x.de == '1250':
                            q2 = v
                        sub.append(v)
                    else:
                        sub.append('')
                if all(s == '' for s in sub):
                    # a present composite needs a component: take the first usable one
                    for k, x in enumerate(c.children):
                        if x.usage != 'N':
                            sub[k] = ele_value(x, seg, plan, None)
                            break
                vals.append(sub)
            else:
                vals.append('')
    repair_syntax(seg, vals, plan)
    fix_dates(seg, vals)
    if not any(present(vals, i + 1) for i in range(len(vals))):
        # X12: a segment carries at least one data element; take the first usable one
        done = False
        for i, c in enumerate(seg.children):
            if c.usage == 'N':
                continue
            try:
                if c.kind == 'ele':
                    vals[i] = ele_value(c, seg, plan, None)
                else:
                    sub = [''] * len(c.children)
                    for k, x in enumerate(c.children):
                        if x.usage != 'N':
                            sub[k] = ele_value(x, seg, plan, None)
                            break
                    vals[i] = sub
            except Ungeneratable:
                continue
            try:
                repair_syntax(seg, vals, plan)
            except Ungeneratable:
                vals[i] = ''
                continue
            done = True
            fix_dates(seg, vals)
            break
        if not done:
            raise Ungeneratable('segment %s cannot carry any element' % seg.path)
    return [seg.id] + vals


def fix_dates(seg, vals):
    """a 1251 value must have the format named by the 1250 qualifier before it (or, when that is absent,
    a format its code list names)"""
    def fmt(q, qv):
        if qv and qv in DT_BY_QUAL:
            return DT_BY_QUAL[qv]
        for c in (q.codes if q is not None else []):
            if c in DT_BY_QUAL:
                return DT_BY_QUAL[c]
        return None
    q = None; qv = None
    for i, c in enumerate(seg.children):
        if c.kind == 'ele':
            if c.de == '1250':
                q = c; qv = vals[i] if i < len(vals) else ''
            elif c.de == '1251' and q is not None and i < len(vals) and vals[i] != '' and not isinstance(vals[i], list):
                f = fmt(q, qv)
                if f and not c.codes:
                    vals[i] = f
        else:
            if i < len(vals) and isinstance(vals[i], list):
                q2 = None; qv2 = None
                for k, x in enumerate(c.children):
                    if x.de == '1250':
                        q2 = x; qv2 = vals[i][k] if k < len(vals[i]) else ''
                    elif x.de == '1251' and q2 is not None and k < len(vals[i]) and vals[i][k] != '':
                        f = fmt(q2, qv2)
                        if f and not x.codes:
                            vals[i][k] = f


def present(vals, i):
    if i > len(vals):
        return False
    v = vals[i - 1]
    return any(x != '' for x in v) if isinstance(v, list) else v != ''


def repair_syntax(seg, vals, plan):
    def fillpos(i):
        if i > len(seg.children):
            return False
        c = seg.children[i - 1]
        if c.usage == 'N':
            return False
        if c.kind == 'ele':
            vals[i - 1] = ele_value(c, seg, plan, None)
        else:
            sub = [''] * len(c.children)
            for k, x in enumerate(c.children):
                if x.usage == 'R' or (k == 0 and x.usage != 'N'):
                    sub[k] = ele_value(x, seg, plan, None)
            if all(s == '' for s in sub):
                return False
            vals[i - 1] = sub
        return True

    def blank(i):
        c = seg.children[i - 1]
        if c.usage == 'R':
            return False
        vals[i - 1] = ''
        return True

    for _ in range(4):
        changed = False
        for text in seg.syntax:
            t, idx = G.syntax_parts(text)
            pr = [present(vals, i) for i in idx]
            if t == 'P' and any(pr) and not all(pr):
                ok = all(fillpos(i) for i, p in zip(idx, pr) if not p)
                if not ok:
                    if not all(blank(i) for i, p in zip(idx, pr) if p):
                        raise Ungeneratable('syntax %s' % text)
                changed = True
            elif t == 'R' and not any(pr):
                if not any(fillpos(i) for i in idx):
                    raise Ungeneratable('syntax %s' % text)
                changed = True
            elif t == 'C' and pr[0] and not all(pr[1:]):
                ok = all(fillpos(i) for i, p in zip(idx[1:], pr[1:]) if not p)
                if not ok and not blank(idx[0]):
                    raise Ungeneratable('syntax %s' % text)
                changed = True
            elif t == 'L' and pr[0] and not any(pr[1:]):
                if not any(fillpos(i) for i in idx[1:]) and not blank(idx[0]):
                    raise Ungeneratable('syntax %s' % text)
                changed = True
            elif t == 'E' and sum(pr) > 1:
                keep = True
                for i, p in zip(idx, pr):
                    if p:
                        if keep and seg.children[i - 1].usage == 'R':
                            keep = False
                            continue
                for i, p in zip(idx, pr):
                    pass
                # keep one (prefer a required one), blank the others
                req = [i for i, p in zip(idx, pr) if p and seg.children[i - 1].usage == 'R']
                keepi = req[0] if req else [i for i, p in zip(idx, pr) if p][0]
                for i, p in zip(idx, pr):
                    if p and i != keepi:
                        if not blank(i):
                            raise Ungeneratable('syntax %s' % text)
                changed = True
        if not changed:
            return
    # verify
    for text in seg.syntax:
        t, idx = G.syntax_parts(text)
        pr = [present(vals, i) for i in idx]
        bad = (t == 'P' and any(pr) and not all(pr)) or (t == 'R' and not any(pr)) or (t == 'E' and sum(pr) > 1) or \
              (t == 'C' and pr[0] and not all(pr[1:])) or (t == 'L' and pr[0] and not any(pr[1:]))
        if bad:
            raise Ungeneratable('syntax %s unrepairable' % text)


# ---------------------------------------------------------------------------------------------------
# document construction
# ---------------------------------------------------------------------------------------------------
class Doc(object):
    def __init__(self):
        self.segs = []       # [id, values...]   values: str or list (composite)
        self.nodes = []      # grammar Seg node per segment
        self.lpaths = []     # loop instance path per segment: tuple of (loop path, instance number)
        self.plan = None
        self.entry = None

    def text(self, seg='~', ele='*', sub=':', eol='', rep='^'):
        out = []
        for s in self.segs:
            parts = [s[0]]
            for v in s[1:]:
                parts.append(sub.join(v) if isinstance(v, list) else v)
            if s[0] == 'ISA':
                parts[16] = sub
                if parts[12] == '00501':
                    parts[11] = rep
            else:
                while len(parts) > 1 and parts[-1] == '':
                    parts.pop()
                parts = [re.sub(re.escape(sub) + '+$', '', p) if i else p for i, p in enumerate(parts)]
            out.append(ele.join(parts) + seg + eol)
        return ''.join(out)

    def flat(self):
        """list of [id, e1, e2..] strings (composites joined with ':'), trailing empties trimmed"""
        out = []
        for s in self.segs:
            parts = [s[0]] + [(':'.join(v)).rstrip(':') if isinstance(v, list) else v for v in s[1:]]
            if s[0] != 'ISA':
                while len(parts) > 1 and parts[-1] == '':
                    parts.pop()
            out.append(parts)
        return out


def needed(plan, root):
    """paths of nodes that must be present because an included node lies below them"""
    inc = set(plan.get('include', ()))
    exact = set()
    for p in list(inc):
        if p.startswith('#'):
            inc.discard(p)
            node = G.segments(root)[int(p[1:])]
            exact.add(id(node))
            inc.add(node.parent.path)
    plan['_exact'] = exact
    inc |= set(plan.get('repeat', {}).keys())
    inc |= set(f[0] for f in plan.get('fill', ()))
    out = set()
    for p in inc:
        parts = p.split('/')
        for k in range(2, len(parts) + 1):
            out.add('/'.join(parts[:k]))
    return out


def emit(n, plan, need, doc, lstack, counts, force=False):
    """instances of node n inside the current parent instance"""
    if n.kind == 'seg':
        if n.usage == 'N':
            return
        k = plan.get('repeat', {}).get(n.path, 1 if (n.usage == 'R' or n.path in need or id(n) in plan.get('_exact', ()) or plan.get('all') or force) else 0)
        if force:
            k = 1      # the segment that opens a loop instance occurs exactly once in it
        if k > G.maxrep(n) and not plan.get('overflow'):
            raise Ungeneratable('repeat %d > max %d at %s' % (k, G.maxrep(n), n.path))
        for _ in range(k):
            doc.segs.append(mkseg(n, plan)); doc.nodes.append(n); doc.lpaths.append(tuple(lstack))
        return
    # loop
    if transparent(n):
        for c in ordered(n.children, plan):
            emit(c, plan, need, doc, lstack, counts)
        return
    if n.usage == 'N':
        return
    k = plan.get('repeat', {}).get(n.path, 1 if (n.usage == 'R' or n.path in need or plan.get('all')) else 0)
    if k > G.maxrep(n) and not plan.get('overflow'):
        raise Ungeneratable('repeat %d > max %d at %s' % (k, G.maxrep(n), n.path))
    for _ in range(k):
        counts[n.path] = counts.get(n.path, 0) + 1
        lstack.append((n.path, counts[n.path]))
        for j, c in enumerate(ordered(n.children, plan)):
            emit(c, plan, need, doc, lstack, counts, force=(c is n.children[0] and c.kind == 'seg'))
        lstack.pop()


def ordered(children, plan):
    """children in map order, or -- plan['swap_samepos'] -- with every run of same-position siblings reversed
    (siblings at one position may legally come in any order; the first child of a loop keeps its place)"""
    if not plan.get('swap_samepos'):
        return children
    out = []
    i = 0
    while i < len(children):
        j = i
        while j + 1 < len(children) and children[j + 1].pos == children[i].pos:
            j += 1
        grp = list(children[i:j + 1])
        if i == 0:
            grp = [grp[0]] + list(reversed(grp[1:]))
        else:
            grp.reverse()
        out.extend(grp)
        i = j + 1
    return out


def find(root, path):
    for n in G.walk(root):
        if getattr(n, 'path', None) == path and n.kind in ('loop', 'seg'):
            return n
    return None


def build(entry, plan):
    """entry = (icvn, vriic, fic, tspc, file, abbr).  Returns Doc with a complete interchange."""
    icvn, vriic, fic, tspc, fname, abbr = entry
    root = G.load(fname)
    need = needed(plan, root)
    isa_loop = [c for c in root.children if c.id == 'ISA_LOOP'][0]
    gs_loop = [c for c in isa_loop.children if c.id == 'GS_LOOP'][0]
    st_loop = [c for c in gs_loop.children if c.id == 'ST_LOOP'][0]
    isa_seg = [c for c in isa_loop.children if c.id == 'ISA'][0]
    iea_seg = [c for c in isa_loop.children if c.id == 'IEA'][0]
    gs_seg = [c for c in gs_loop.children if c.id == 'GS'][0]
    ge_seg = [c for c in gs_loop.children if c.id == 'GE'][0]
    doc = Doc(); doc.plan = plan; doc.entry = entry
    counts = {}
    others = [c for c in isa_loop.children if c not in (isa_seg, iea_seg, gs_loop)]   # e.g. TA1: not generated
    for i in range(plan.get('interchanges', 1)):
        counts['/ISA_LOOP'] = counts.get('/ISA_LOOP', 0) + 1
        L1 = [('/ISA_LOOP', counts['/ISA_LOOP'])]
        doc.segs.append(mkseg(isa_seg, plan)); doc.nodes.append(isa_seg); doc.lpaths.append(tuple(L1))
        if plan.get('ta1'):
            # the interchange acknowledgement segment(s) the map allows between ISA and the first GS
            for o in others:
                if o.kind == 'seg' and o.usage != 'N' and o.pos <= gs_loop.pos:
                    doc.segs.append(mkseg(o, dict(plan, fill_all=True))); doc.nodes.append(o); doc.lpaths.append(tuple(L1))
        for g in range(plan.get('groups', 1)):
            counts['/ISA_LOOP/GS_LOOP'] = counts.get('/ISA_LOOP/GS_LOOP', 0) + 1
            L2 = L1 + [('/ISA_LOOP/GS_LOOP', counts['/ISA_LOOP/GS_LOOP'])]
            doc.segs.append(mkseg(gs_seg, plan)); doc.nodes.append(gs_seg); doc.lpaths.append(tuple(L2))
            for s in range(plan.get('sets', 1)):
                p2 = plan if (s == 0 and g == 0 and i == 0) else dict(plan, include=(), repeat={}, fill=(), all=False, fill_all=False, _exact=())
                n2 = need if p2 is plan else set()
                counts[st_loop.path] = counts.get(st_loop.path, 0) + 1
                L3 = L2 + [(st_loop.path, counts[st_loop.path])]
                for c in ordered(st_loop.children, p2):
                    emit(c, p2, n2, doc, L3, counts)
            doc.segs.append(mkseg(ge_seg, plan)); doc.nodes.append(ge_seg); doc.lpaths.append(tuple(L2))
        doc.segs.append(mkseg(iea_seg, plan)); doc.nodes.append(iea_seg); doc.lpaths.append(tuple(L1))
    envelope(doc, entry)
    if 'pad' in plan:
        apply_pad(doc, plan['pad'])
    return doc


def concat(d1, d2):
    """one file holding the interchanges of d1 followed by those of d2 (possibly of another map / version): loop
    instance numbers of d2 continue those of d1, interchange control numbers are made distinct"""
    d = Doc()
    d.plan = d1.plan; d.entry = d1.entry
    d.segs = [[list(v) if isinstance(v, list) else v for v in s] for s in d1.segs + d2.segs]
    d.nodes = list(d1.nodes) + list(d2.nodes)
    top = {}
    for lp in d1.lpaths:
        for path, n in lp:
            top[path] = max(top.get(path, 0), n)
    d.lpaths = list(d1.lpaths) + [tuple((path, n + top.get(path, 0)) for path, n in lp) for lp in d2.lpaths]
    n1 = len([s for s in d1.segs if s[0] == 'ISA'])
    k = 0
    for s in d.segs[len(d1.segs):]:
        if s[0] == 'ISA':
            k += 1
            s[13] = '%09d' % (n1 + k)
        elif s[0] == 'IEA':
            s[2] = '%09d' % (n1 + k)
    return d


def apply_pad(doc, pad):
    """lengthen one free-text value near the start of the first set by `pad` characters (within its definition): slides
    everything behind it, character by character, across the reader's buffer boundaries"""
    started = False
    for s, n in zip(doc.segs, doc.nodes):
        if s[0] == 'ST':
            started = True
            continue
        if not started or s[0] in ('SE', 'HL', 'LX'):
            continue
        for c in n.children:
            if c.kind == 'ele' and not c.codes and not c.ext and not c.regex and c.usage != 'N' and c.seq < len(s) and s[c.seq] != '':
                dt, mn, mx = G.dataele().get(c.de, ('', 0, 0))
                if dt == 'AN' and mx >= 30 and mn <= 1:
                    if 1 + pad > mx:
                        raise Ungeneratable('pad %d exceeds %s' % (pad, c.id))
                    s[c.seq] = 'A' * (1 + pad)
                    return
    raise Ungeneratable('no free-text element to pad')


def plans_boundary(entry, thorough=False):
    """conformant documents longer than two 8 KiB reads, one segment per line (LF / CRLF), slid across the read boundaries"""
    if entry[4] not in (('834.4010.X095.A1.xml', '835.5010.X221.A1.xml', '837.4010.X098.A1.xml') if thorough else ('834.4010.X095.A1.xml',)):
        return
    for eol in ('\n', '\r\n'):
        for pad in range(0, 30):
            yield ('boundary:%s:pad%d' % ('LF' if eol == '\n' else 'CRLF', pad), {'sets': 160, 'pad': pad, 'eol': eol})


def setv(s, i, v):
    while len(s) <= i:
        s.append('')
    s[i] = v


def envelope(doc, entry):
    """control numbers, counts, HL/LX numbering, version and type identifiers"""
    icvn, vriic, fic, tspc, fname, abbr = entry
    isa_n = gs_n = st_n = 0
    hl = 0; lx = 0
    hl_hist = []       # (number, node) of HLs in the current set
    gs_in_isa = st_in_gs = 0
    seg_in_st = 0
    cur_isa = cur_gs = cur_st = None
    is837 = G.load(fname).id == '837'
    for s, n in zip(doc.segs, doc.nodes):
        k = s[0]
        if k == 'ISA':
            isa_n += 1; gs_in_isa = 0
            cur_isa = '%09d' % isa_n
            q1, q2 = (getattr(doc, 'plan', None) or {}).get('isa_quals', ('ZZ', 'ZZ'))
            s[1:] = ['00', ' ' * 10, '00', ' ' * 10, q1, 'SENDER'.ljust(15), q2, 'RECEIVER'.ljust(15), '040102', '1200',
                     'U' if icvn == '00401' else '^', icvn, cur_isa, '0', 'P', ':']
        elif k == 'IEA':
            s[1:] = [str(gs_in_isa), cur_isa]
        elif k == 'GS':
            gs_n += 1; gs_in_isa += 1; st_in_gs = 0
            cur_gs = str(gs_n)
            s[1:] = [fic, 'SENDER', 'RECEIVER', '20040102', '1200', cur_gs, 'X', vriic]
        elif k == 'GE':
            s[1:] = [str(st_in_gs), cur_gs]
        elif k == 'ST':
            st_n += 1; st_in_gs += 1; seg_in_st = 1
            cur_st = '%04d' % st_n
            setv(s, 2, cur_st)
            if len(n.children) >= 3 and n.children[2].usage != 'N':
                setv(s, 3, vriic)
            hl = 0; hl_hist = []; lx = 0
        elif k == 'SE':
            seg_in_st += 1
            s[1:] = [str(seg_in_st), cur_st]
        else:
            seg_in_st += 1
            if k == 'HL':
                hl += 1
                setv(s, 1, str(hl))
                if n.children[1].usage != 'N':
                    par = ''
                    for (num, node) in reversed(hl_hist):
                        if node is not n and not node.parent.path.startswith(n.parent.path + '/'):
                            par = str(num); break
                    setv(s, 2, par)
                hl_hist.append((hl, n))
            elif k == 'CLM':
                lx = 0
            elif k == 'LX' and is837:
                lx += 1
                setv(s, 1, str(lx))
            elif k == 'BHT' and tspc:
                setv(s, 2, tspc)


# ---------------------------------------------------------------------------------------------------
# reference parser: first match in position order from the current node outward (property C02 mechanism)
# ---------------------------------------------------------------------------------------------------
def seg_matches(node, flat):
    """id + qualifier code (X12 convention used by the maps)"""
    if flat[0] != node.id:
        return False
    q, where = G.qual_ele(node)
    if q is None:
        return True
    if where == '01-1':
        v = (flat[1] if len(flat) > 1 else '').split(':')[0]
        # only a coded ID first component selects; AN first components (except CTX) do not
        dt = G.dataele().get(q.de, ('',))[0]
        if dt != 'ID' and node.id != 'CTX':
            return True
    else:
        i = int(where)
        v = flat[i] if len(flat) > i else ''
        if where == '01' and q.usage != 'R':
            return True
    return v in q.codes


def first_seg(loop):
    c = loop.children[0]
    return c if c.kind == 'seg' else None


def loop_matches(loop, flat):
    """returns the chain of loops to push and the segment node, or None"""
    if not loop.children:
        return None
    c = loop.children[0]
    if c.kind == 'seg':
        return ([loop], c) if seg_matches(c, flat) else None
    for ch in loop.children:
        if ch.kind == 'loop':
            r = loop_matches(ch, flat)
            if r:
                return ([loop] + r[0], r[1])
    return None


def scan_from(stack, pos, flat):
    """first match in position order from the current node outward -> (base stack, pushed loops, seg node) or None"""
    k = len(stack) - 1
    p = pos
    while k >= 0:
        loop = stack[k]
        for c in loop.children:
            if c.pos < p:
                continue
            if c.kind == 'seg':
                if seg_matches(c, flat):
                    if loop.kind == 'loop' and c is loop.children[0]:
                        return (stack[:k], [loop], c)       # repeat of this loop
                    return (stack[:k + 1], [], c)
            else:
                r = loop_matches(c, flat)
                if r:
                    return (stack[:k + 1], r[0], r[1])
        p = loop.pos if loop.kind == 'loop' else 0
        k -= 1
    return None


def state_after(seg):
    """parser state right after matching grammar segment node `seg`"""
    stack = []
    n = seg.parent
    while n is not None:
        stack.append(n)
        n = n.parent
    stack.reverse()
    return stack, seg.pos


def parse(root, flats):
    """-> list of (seg node or None, loop path tuple)"""
    stack = [root]
    pos = -1
    out = []
    for flat in flats:
        found = scan_from(stack, pos, flat)
        if found is None:
            out.append((None, tuple(x.path for x in stack if x.kind == 'loop')))
            continue
        base, push, node = found
        stack = base + push
        pos = node.pos
        out.append((node, tuple(x.path for x in stack if x.kind == 'loop')))
    return out


def selfcheck(doc):
    """does the reference parser assign every segment to the node that generated it?"""
    root = G.load(doc.entry[4])
    got = parse(root, doc.flat())
    for i, ((node, lp), want) in enumerate(zip(got, doc.nodes)):
        if node is not want:
            return (i, node.path if node else None, want.path)
    return None


# ---------------------------------------------------------------------------------------------------
# enumeration of plans
# ---------------------------------------------------------------------------------------------------
def selectable_entries():
    """index entries that can be reached: file exists and loads in the independent reader, version admitted by the reader"""
    out = []
    seen = set()
    import os
    for e in G.index():
        icvn, vriic, fic, tspc, fname, abbr = e
        if icvn not in ('00401', '00501') or not vriic or not os.path.exists(os.path.join(G.MAPDIR, fname)):
            continue
        out.append(e)
    return out


def plans_d1(entry):
    """the minimal plan and every single deviation from it"""
    root = G.load(entry[4])
    yield ('min', {})
    yield ('min-maxlen', {'length': 'max'})
    yield ('min-oddlen', {'length': 'odd'})
    yield ('lastcode', {'code': 'last'})
    yield ('all', {'all': True})
    yield ('all-filled', {'all': True, 'fill_all': True})
    yield ('two-sets', {'sets': 2})
    yield ('two-groups', {'groups': 2})
    yield ('two-interchanges', {'interchanges': 2})
    # every segment of the map in each of two sets of each of two groups: whatever is chosen per group or per set (the map,
    # counters, cursors) is chosen a second time on a document on which a wrong choice shows
    yield ('all-twice', {'all': True, 'sets': 2, 'groups': 2})
    yield ('all-filled-two-groups', {'all': True, 'fill_all': True, 'groups': 2})
    yield ('lower', {'shape': 'lower', 'all': True, 'fill_all': True})
    yield ('signed', {'shape': 'signed'})
    yield ('signed-all-filled', {'shape': 'signed', 'all': True, 'fill_all': True})
    yield ('signed-maxlen', {'shape': 'signed', 'length': 'max', 'all': True, 'fill_all': True})
    st = None
    for n in G.walk(root):
        if n.kind not in ('loop', 'seg') or not n.path.startswith('/ISA_LOOP/GS_LOOP/ST_LOOP/'):
            continue
        if n.id in ('ST', 'SE'):
            pass
        if n.usage == 'N' or transparent(n):
            continue
        if n.usage == 'S':
            yield ('include:' + n.path, {'include': {n.path}})
        mx = G.maxrep(n)
        if n.id not in ('ST', 'SE') and mx >= 2:
            yield ('repeat2:' + n.path, {'repeat': {n.path: 2}})
            if 2 < mx <= 10:
                yield ('repeatmax:' + n.path, {'repeat': {n.path: mx}})
        if n.kind == 'seg':
            for c in n.children:
                if c.kind == 'ele' and c.usage == 'S':
                    yield ('fill:%s:%02d' % (n.path, c.seq), {'fill': {(n.path, c.seq)}, 'include': {n.path}})
                elif c.kind == 'comp' and c.usage != 'N':
                    for x in c.children:
                        if x.usage == 'S':
                            yield ('fill:%s:%02d-%d' % (n.path, c.seq, x.seq), {'fill': {(n.path, c.seq, x.seq)}, 'include': {n.path}})


def Doc_flat(s):
    parts = [s[0]] + [(':'.join(v)).rstrip(':') if isinstance(v, list) else v for v in s[1:]]
    while len(parts) > 1 and parts[-1] == '':
        parts.pop()
    return parts


def plans_swapped(entry):
    """documents whose same-position sibling runs are reversed: every segment is still located in the map
    (structurally valid for C08/C09), but they are not 'walked in order', so C02 does not claim acceptance"""
    yield ('all-swapped', {'all': True, 'swap_samepos': True})
    yield ('all-filled-swapped', {'all': True, 'fill_all': True, 'swap_samepos': True})
    yield ('ta1-two-groups', {'ta1': True, 'groups': 2, 'interchanges': 2})
