"""
C18 - results are a function of the document and the parameters alone.

Exploration over processing *histories*: every sequence of events of length <= 2 (quick) / additionally every
sequence of length 3 over a 24-event sub-alphabet (thorough), where an event is

    (document, operation, flavour)
    operation  v  pyx12.x12n_document.x12n_document with all sinks (997/999, HTML, XML)
               c  pyx12.x12context.X12ContextReader: iterate over a loop id, edit the first tree, serialise
               x  pyx12.xmlx12_simple.convert of the XML that `v` produces for the document
    flavour    F  a fresh params object for the event
               R  the params object shared by all R/M events of the sequence
               M  R, and map objects are reused as well: map_if.load_map_file is memoised for the sequence

Every sequence runs in a pristine forked child (the forking processes have imported pyx12 and never executed
any of it), with the real clock and the real random module.  Reference = the observation of the same event
executed alone in a brand-new interpreter (subprocess, PYTHONHASHSEED 0..3, fixed clock, stubbed random).
Oracle, from the statement:
  * the four hash-seed baselines of an event are byte-identical (unmasked);
  * every event of every sequence gives the baseline observation after masking exactly the fields the statement
    exempts (timestamps and generated control numbers): ISA09/ISA10/ISA13, GS04/GS05/GS06, ST02, SE02, GE02, IEA02 of
    the acknowledgement, and the HTML date line
    (so a clock-derived value anywhere else shows up as a difference too: baseline clock is fixed in 2020);
  * after every sequence no mutable default argument of any pyx12 function has changed.
"""
import os, sys, io, json, time, signal, hashlib, inspect, subprocess
from concurrent.futures import ThreadPoolExecutor
from mc import core
core.bind_repo()
# import only - nothing of pyx12 is *executed* in this process or in the pool workers
import pyx12.params, pyx12.x12n_document, pyx12.x12context, pyx12.xmlx12_simple, pyx12.error_handler
import pyx12.error_997, pyx12.error_999, pyx12.error_html, pyx12.map_if, pyx12.map_walker, pyx12.xmlwriter
import pyx12.x12xml_simple, pyx12.nodeCounter
from pyx12.test.x12testdata import datafiles as _DF

ID = 'C18'
LEVEL = 'model_checking'
SEEDS = (0, 1, 2, 3)
FIXED_CLOCK = (2020, 1, 2, 3, 4, 5, 3, 2, 0)
FIXED_RANDINT = 123456789


# ----- documents --------------------------------------------------------------------------------------
def _redelimit(text, pairs):
    for a, b in pairs:
        assert b not in text, (a, b)
    return text.translate({ord(a): b for a, b in pairs})


def _only_278(text):
    """the 278 request/response group of the suite's multiple_trn document as an interchange of its own
    (three transaction sets whose BHT02 switches the map 11 -> 13 -> 11)"""
    segs = [s.strip() for s in text.split('~') if s.strip()]
    out = []
    for s in segs:
        out.append(s)
        if s.startswith('GE*'):
            break
    iea = [s for s in segs if s.startswith('IEA*')][0].split('*')
    out.append('IEA*1*' + iea[2])
    return '~\n'.join(out) + '~\n'


def _two_codes(text, ele, seg):
    """give the first N3 segment a leading blank and a trailing element separator: two distinct segment-level
    error codes on one segment (the acknowledgement visitors iterate over a set() of them)"""
    i = text.index(seg + '\nN3' + ele) + 2
    j = text.index(seg, i)
    return text[:i] + ' ' + text[i:j] + ele + text[j:]


def _docs():
    pdir = os.path.dirname(pyx12.__file__)
    d = {}
    # name: (text, loop id for the context reader, path to edit in the first tree, new value)
    d['837p'] = (_DF['simple_837p']['source'], '2300', 'CLM02', '999.99')
    d['837p_bad'] = (_two_codes(_DF['elements']['source'], '*', '~'), '2300', 'CLM02', '1')
    d['834_5010'] = (_DF['834_lui_id_5010']['source'], '2000', 'INS02', '19')
    d['835'] = (_DF['835id']['source'], '2100', 'CLP02', '2')
    # the same 5010 document with a functional-group level error (GE02 differs from GS06): the acknowledgement of the group
    # carries a group error code, which must not show in the acknowledgement of any later document
    # a 4010 document whose group control number is not numeric (an ELEMENT error on GS06 / GE02: the 997 looks its
    # AK905 code up in a table keyed by element position)
    d['837p_gs'] = (_DF['simple_837p']['source'].replace('*1526*1167*X*', '*1526*116A*X*').replace('GE*1*1167', 'GE*1*116A'), '2300', 'CLM02', '999.99')
    d['834_5010_ge'] = (_DF['834_lui_id_5010']['source'].replace('GE*1*13360001', 'GE*1*13360002'), '2000', 'INS02', '19')
    d['999'] = (open(os.path.join(pdir, 'tests', '834_lui_id_5010.999.txt')).read(), '2000', 'AK202', '0009')
    d['278'] = (_only_278(_DF['multiple_trn']['source']), 'ST_LOOP', 'BHT03', 'X')
    d['multi_isa'] = (_DF['mult_isa']['source'], 'ST_LOOP', 'BHT03', 'X')
    # a valid 835 interchange followed by an interchange for which no map exists: validation aborts (documented map-not-found
    # error) after the XML / HTML / acknowledgement sinks have started
    d['mapless'] = (_DF['835id']['source'].rstrip() + '\n' + _DF['835id']['source'].replace('004010X091A1', '004010X999ZZ').replace('*000010121*', '*000010122*'), 'ST_LOOP', 'BPR02', '1')
    d['834_delims'] = (_two_codes(_redelimit(open(os.path.join(pdir, 'examples', 'example834_5010.txt')).read(), [('*', '|'), ('~', '!')]), '|', '!'),
                       '2000', 'INS02', '19')
    return d


class _Docs(dict):
    """the fixed documents plus, on demand, generated ones named X|<map file>|<node path>|<repeat>: the conformant
    document of that map that contains the node <repeat> times (built by the independent generator: no pyx12 code runs)"""

    def __missing__(self, name):
        from mc import corpus
        kind, fname, path, k = name.split('|')
        entry = [e for e in corpus.one_entry_per_map() if e[4] == fname][0]
        if kind == 'Y':
            # Y|<map file>|<min|max>|0: everything optional present, values of minimal / maximal admissible length
            d = None
            for plan in ({'all': True, 'fill_all': True}, {'all': True}, {}):
                d = corpus.build_ok(entry, dict(plan, length=path))
                if d is not None:
                    break
        else:
            plan = {'include': {path}}
            if int(k) > 1:
                plan['repeat'] = {path: int(k)}
            d = corpus.build_ok(entry, plan)
        if d is None:
            raise KeyError(name)
        v = (d.text(eol='\n'), 'ST_LOOP', 'ST02', '0009')
        self[name] = v
        return v


DOCS = _Docs(_docs())


def cross_map_pairs(thorough):
    """pairs of generated documents of DIFFERENT maps that meet in a node of the same name under a parent of the same name
    (which is all that map-node equality and hashing look at) but with different repeat limits: A enters the node once,
    B repeats it one more often than A's map allows (legal in B's map).  Quick: loops; thorough: loops and segments."""
    import collections
    from mc import corpus, grammar as G
    keys = collections.OrderedDict()
    for e in corpus.one_entry_per_map():
        try:
            root = G.load(e[4])
        except Exception:
            continue
        for n in G.walk(root):
            if n.kind in ('loop', 'seg') and n.path.startswith('/ISA_LOOP/GS_LOOP/ST_LOOP/') and n.usage != 'N' and n.id not in ('ST', 'SE'):
                if n.kind == 'seg' and not thorough:
                    continue
                k = (n.kind, n.id, n.parent.id if n.parent is not None else None)
                keys.setdefault(k, collections.OrderedDict()).setdefault(G.maxrep(n), (e[4], n.path))
    out = []
    skipped = 0
    for k, lim in keys.items():
        if len(lim) < 2:
            continue
        ls = sorted(lim)
        small, big = ls[0], ls[1]
        if small + 1 > min(big, 60):
            continue
        a = 'X|%s|%s|1' % lim[small]
        b = 'X|%s|%s|%d' % (lim[big] + (small + 1,))
        try:
            DOCS[a]; DOCS[b]
        except KeyError:
            skipped += 1
            continue
        out.append((a, b))
    # the two versions of one transaction: data elements of the same number have other lengths / codes in 4010 and 5010
    # (a shared definition table must not carry one version's limits over to the other)
    versions = [('834.4010.X095.A1.xml', '834.5010.X220.A1.xml'), ('835.4010.X091.A1.xml', '835.5010.X221.A1.xml'),
                ('837.4010.X098.A1.xml', '837.5010.X222.A1.xml')] + ([('270.4010.X092.A1.xml', '277.5010.X214.xml'), ('997.4010.xml', '999.5010.xml')] if thorough else [])
    for a, b in versions:
        for la, lb in (('min', 'max'), ('max', 'max')):
            na, nb = 'Y|%s|%s|0' % (a, la), 'Y|%s|%s|0' % (b, lb)
            try:
                DOCS[na]; DOCS[nb]
            except (KeyError, IndexError):
                skipped += 1
                continue
            out.append((na, nb))
    return out, skipped
DOC_ORDER = ['837p', '837p_bad', '837p_gs', '834_5010', '834_5010_ge', '835', '999', '278', 'multi_isa', '834_delims', 'mapless']
OPNAME = {'P': 'validate[map_path=site copy named map whose codes.xml lacks state MI and whose maps.xml lacks the 4010 835]', 'v': 'validate', 'c': 'context', 'x': 'xml2x12', 'V': 'validate[charset=B,exclude=states]', 'C': 'context[charset=B,exclude=states]'}
MAPPATH_DOCS = ('837p', '834_5010', '835')      # documents with a state code MI, and one the site index does not know: validated under another map directory as well
VARIANT_DOCS = ('834_5010', '834_delims', '837p')       # documents with lower-case text / state codes, sensitive to the variant


def alphabet_full():
    evs = []
    for d in DOC_ORDER:
        for op in ('v', 'c'):
            for fl in ('F', 'R', 'M'):
                evs.append((d, op, fl))
        evs.append((d, 'x', '-'))
        if d in VARIANT_DOCS:
            evs.append((d, 'V', 'F'))
            evs.append((d, 'C', 'F'))
        if d in MAPPATH_DOCS:
            evs.append((d, 'P', 'F'))
    return evs


def alphabet_sub():
    """thorough, length 3: the most stateful flavour of each operation on every document"""
    evs = []
    for d in DOC_ORDER:
        evs += [(d, 'v', 'M'), (d, 'c', 'M'), (d, 'x', '-')]
    return evs


def base_key(ev):
    return '%s|%s' % (ev[0], ev[1])


# ----- owned nondeterminism ---------------------------------------------------------------------------
class _FixedClock(object):
    def strftime(self, fmt, t=None):
        return time.strftime(fmt, FIXED_CLOCK)

    def __getattr__(self, name):
        return getattr(time, name)


class _FixedRandom(object):
    def randint(self, a, b):
        return FIXED_RANDINT

    def __getattr__(self, name):
        import random
        return getattr(random, name)


def fix_clock():
    for m in (pyx12.error_997, pyx12.error_999, pyx12.error_html):
        assert inspect.ismodule(m.time) or isinstance(m.time, _FixedClock)   # they do `import time`
        m.time = _FixedClock()
    pyx12.error_999.random = _FixedRandom()


ACK_MASK = {'ISA': (9, 10, 13), 'GS': (4, 5, 6), 'ST': (2,), 'SE': (2,), 'GE': (2,), 'IEA': (2,)}


def mask_ack(text):
    if len(text) < 106 or not text.startswith('ISA'):
        return text
    ele, seg = text[3], text[105]
    out = []
    for piece in text.split(seg):
        body = piece.lstrip('\r\n')
        lead = piece[:len(piece) - len(body)]
        f = body.split(ele)
        for i in ACK_MASK.get(f[0], ()):
            if i < len(f):
                f[i] = '#'
        out.append(lead + ele.join(f))
    return seg.join(out)


def mask_html(text):
    lines = text.split('\n')
    for i, l in enumerate(lines):
        if l.startswith('<h3>Analysis Date: '):
            del lines[i]
            break
    return '\n'.join(lines)


def mask(op, obs):
    op = 'v' if op == 'P' else op.lower()
    if op != 'v':
        return obs
    o = dict(obs)
    o['ack'] = mask_ack(o.get('ack', ''))
    o['html'] = mask_html(o.get('html', ''))
    return o


# ----- the three operations -----------------------------------------------------------------------------
class Ctx(object):
    """what a sequence shares between its events"""

    def __init__(self):
        self.params = None
        self.maps = {}
        self.real_loader = pyx12.map_if.load_map_file

    def shared_params(self):
        if self.params is None:
            self.params = pyx12.params.params()
        return self.params

    def loader(self, map_file, param, map_path=None):
        k = (map_file, id(param), map_path)
        if k not in self.maps:
            self.maps[k] = self.real_loader(map_file, param, map_path)
        return self.maps[k]


FAILURES = []
_ALT = [None, None]


def alt_map_dir():
    """a site copy of the map directory (links to the shipped files) whose codes.xml lacks the state code MI: the same
    document has a different, equally well defined result under this map_path"""
    import tempfile, shutil, atexit
    if _ALT[0] is not None and os.path.isdir(_ALT[0]):
        return _ALT[0]
    src = os.path.join(os.path.dirname(pyx12.__file__), 'map')
    top = tempfile.mkdtemp(prefix='c18_maps_', dir='/dev/shm' if os.path.isdir('/dev/shm') else None)
    # the site folder has the conventional name 'map', like the packaged one: only the full path tells them apart
    d = os.path.join(top, 'map')
    os.mkdir(d)
    for f in os.listdir(src):
        if f == 'codes.xml':
            t = open(os.path.join(src, f), encoding='utf-8').read()
            assert t.count('<code>MI</code>') >= 1
            open(os.path.join(d, f), 'w', encoding='utf-8').write(t.replace('<code>MI</code>', '', 1))
        elif f == 'maps.xml':
            # ... and its index does not know the 4010 835: under this map_path that document has no map (the documented refusal)
            t = open(os.path.join(src, f), encoding='utf-8').read()
            line = [l for l in t.split('\n') if 'vriic="004010X091A1"' in l and 'fic="HP"' in l]
            assert len(line) == 1
            open(os.path.join(d, f), 'w', encoding='utf-8').write(t.replace(line[0] + '\n', '', 1))
        else:
            os.symlink(os.path.join(src, f), os.path.join(d, f))
    _ALT[0], _ALT[1] = d, os.getpid()

    def _rm():
        if os.getpid() == _ALT[1]:
            shutil.rmtree(top, ignore_errors=True)
    atexit.register(_rm)
    return d


def op_validate(text, param, map_path=None):
    f9, fh, fx = io.StringIO(), io.StringIO(), io.StringIO()
    obs = {}
    try:
        obs['verdict'] = repr(pyx12.x12n_document.x12n_document(param, io.StringIO(text), f9, fh, fd_xmldoc=fx, map_path=map_path))
    except Exception as e:
        obs['raises'] = '%s@%s' % (type(e).__name__, core.where(e))
        FAILURES.append(e)          # a batch driver keeps its failures (and with them the frames of the aborted call) until the end
    obs['ack'] = f9.getvalue()
    obs['html'] = fh.getvalue()
    obs['xml'] = fx.getvalue()
    return obs


def _errs(n):
    return repr([getattr(n, a, None) for a in ('err_isa', 'err_gs', 'err_st', 'err_seg', 'err_ele')])


def op_context(text, param, loop, path, val):
    segs, errs, trees, loops = [], [], [], []
    obs = {}
    try:
        rd = pyx12.x12context.X12ContextReader(param, pyx12.error_handler.errh_null(), io.StringIO(text))
        for n in rd.iter_segments(loop):
            if n.type == 'loop':
                if not trees:
                    try:
                        before = n.get_value(path)
                        n.set_value(path, val)
                        trees.append('%s edit %s %r->%r' % (n.id, path, before, n.get_value(path)))
                    except Exception as e:
                        trees.append('%s edit raises %s@%s' % (n.id, type(e).__name__, core.where(e)))
                else:
                    trees.append(n.id)
            else:
                errs.append('%s %s' % (n.id, _errs(n)))
            for s in n.iterate_segments():
                segs.append('%s %s %s' % (s['type'], s['id'], s['segment'].format()))
            for s in n.iterate_loop_segments():
                loops.append('%s %s %s' % (s['type'], s['id'], [x.id for x in s.get('start_loops', [])] + ['/'] + [x.id for x in s.get('end_loops', [])]))
    except Exception as e:
        obs['raises'] = '%s@%s' % (type(e).__name__, core.where(e))
    obs['segs'] = '\n'.join(segs)
    obs['errs'] = '\n'.join(errs)
    obs['trees'] = '\n'.join(trees)
    obs['loops'] = '\n'.join(loops)
    return obs


def op_xml2x12(xml):
    out = io.StringIO()
    obs = {}
    try:
        obs['ret'] = repr(pyx12.xmlx12_simple.convert(io.StringIO(xml), out))
    except Exception as e:
        obs['raises'] = '%s@%s' % (type(e).__name__, core.where(e))
    obs['x12'] = out.getvalue()
    return obs


def run_event(ev, ctx, xml_of):
    doc, op, fl = ev
    text, loop, path, val = DOCS[doc]
    if op == 'x':
        return op_xml2x12(xml_of(doc))
    param = pyx12.params.params() if fl == 'F' else ctx.shared_params()
    if op in ('V', 'C'):
        # same document, other parameter values, always on a params object of its own
        param = pyx12.params.params()
        param.set('charset', 'B')
        param.set('exclude_external_codes', 'states')
        op = op.lower()
    if op == 'P':
        return op_validate(text, pyx12.params.params(), map_path=alt_map_dir())
    if fl == 'M':
        pyx12.map_if.load_map_file = ctx.loader
    try:
        if op == 'v':
            return op_validate(text, param)
        return op_context(text, param, loop, path, val)
    finally:
        pyx12.map_if.load_map_file = ctx.real_loader


# ----- mutable default arguments --------------------------------------------------------------------------
def mutable_defaults():
    """{'module.qualname#i': repr} for every list/dict/set default of every function defined in a pyx12 module"""
    out = {}
    seen = set()

    def fn(f, modname):
        if id(f) in seen or getattr(f, '__module__', None) != modname:
            return
        seen.add(id(f))
        ds = list(f.__defaults__ or ()) + [v for _, v in sorted((f.__kwdefaults__ or {}).items())]
        for i, v in enumerate(ds):
            if isinstance(v, (list, dict, set, bytearray)):
                out['%s.%s#%d' % (modname, f.__qualname__, i)] = repr(v)

    for name, m in sorted(sys.modules.items()):
        if m is None or not (name == 'pyx12' or name.startswith('pyx12.')) or name.startswith('pyx12.test'):
            continue
        for a in list(vars(m).values()):
            if inspect.isfunction(a):
                fn(a, name)
            elif inspect.isclass(a) and a.__module__ == name:
                for b in list(vars(a).values()):
                    b = getattr(b, '__func__', b)
                    if isinstance(b, property):
                        for g in (b.fget, b.fset, b.fdel):
                            if inspect.isfunction(g):
                                fn(g, name)
                    elif inspect.isfunction(b):
                        fn(b, name)
    return out


DEFAULTS0 = mutable_defaults()


# ----- baselines: one event alone in a new interpreter -------------------------------------------------------
def _baseline_main():
    """entry point of the baseline subprocess: stdin {'ev':..., 'xml':...} -> stdout raw observation"""
    req = json.load(sys.stdin)
    fix_clock()
    ev = tuple(req['ev'])
    obs = run_event((ev[0], ev[1], 'F' if ev[1] != 'x' else '-'), Ctx(), lambda d: req['xml'])
    obs['__defaults'] = json.dumps(sorted(k for k, v in mutable_defaults().items() if DEFAULTS0.get(k) != v))
    sys.stdout.write(json.dumps(obs))


def baseline(doc, op, seed, xml=None):
    env = dict(os.environ)
    env['PYTHONHASHSEED'] = str(seed)
    env['PYTHONDONTWRITEBYTECODE'] = '1'
    code = 'import sys; sys.path.insert(0, %r); from mc import c18; c18._baseline_main()' % core.VERIF
    p = subprocess.run([sys.executable, '-B', '-c', code], input=json.dumps({'ev': [doc, op], 'xml': xml}),
                       capture_output=True, text=True, env=env, timeout=300)
    if p.returncode != 0:
        raise RuntimeError('baseline subprocess for %s/%s seed %s failed: %s' % (doc, op, seed, p.stderr[-2000:]))
    return json.loads(p.stdout)


def first_diff(a, b):
    la, lb = a.split('\n'), b.split('\n')
    for i in range(max(len(la), len(lb))):
        x = la[i] if i < len(la) else '<end>'
        y = lb[i] if i < len(lb) else '<end>'
        if x != y:
            return 'line %d: %r instead of %r' % (i + 1, x[:100], y[:100])
    return 'equal'


def compare(op, got, want):
    op = 'v' if op == 'P' else op.lower()
    """-> [(component, description)]"""
    out = []
    if got.get('raises') != want.get('raises'):
        out.append(('raises %s' % got['raises'] if 'raises' in got else 'does not raise', 'raises %r instead of %r' % (got.get('raises'), want.get('raises'))))
    for k in sorted(set(got) | set(want)):
        if k in ('raises', '__defaults'):
            continue
        if got.get(k) != want.get(k):
            name = k
            if k == 'ack':      # 997 and 999 come from different visitors
                t = got.get(k) or want.get(k) or ''
                i = t.find('\nST*')
                name = 'ack' + (t[i + 4:i + 7] if i >= 0 else '')
            out.append(('%s differs' % name, '%s: %s' % (name, first_diff(got.get(k, ''), want.get(k, '')))))
    return out


def own_seed():
    """hash seed of this process (./check pins PYTHONHASHSEED, default 0): forked children inherit it, so they are
    compared with the baseline taken under the same seed"""
    v = os.environ.get('PYTHONHASHSEED', '')
    return int(v) if v.isdigit() else 0


def baselines_for(pairs, jobs):
    """pairs: iterable of (doc, op).  -> (BASE {doc|op: masked obs}, XML {doc: xml}, findings, n_runs)
    All four hash seeds are run for every event; `x` events need the XML of the document's `v` event."""
    pairs = sorted(set(pairs))
    need_v = sorted(set(d for d, op in pairs if op in ('v', 'x')))
    first = [(d, 'v') for d in need_v] + [(d, op) for d, op in pairs if op in ('c', 'V', 'C', 'P')]
    raw = {}
    mine = own_seed()
    seeds = tuple(SEEDS) + (() if mine in SEEDS else (mine,))
    with ThreadPoolExecutor(max_workers=max(1, jobs)) as ex:
        futs = {(d, op, s): ex.submit(baseline, d, op, s) for d, op in first for s in seeds}
        for k, f in futs.items():
            raw[k] = f.result()
        xml = {d: raw[(d, 'v', 0)]['xml'] for d in need_v}
        futs = {(d, 'x', s): ex.submit(baseline, d, 'x', s, xml[d]) for d, op in pairs if op == 'x' for s in seeds}
        for k, f in futs.items():
            raw[k] = f.result()
    base, findings = {}, []
    for d, op in sorted(set((k[0], k[1]) for k in raw)):
        r0 = raw[(d, op, 0)]
        base['%s|%s' % (d, op)] = mask(op, {k: v for k, v in raw[(d, op, mine)].items() if k != '__defaults'})
        for s in seeds:
            r = raw[(d, op, s)]
            for comp, desc in compare(op, r, r0):
                findings.append(('C18|hashseed|%s|%s' % (OPNAME[op], comp), {'kind': 'hashseed', 'ev': [d, op]},
                                 '%s of %s alone in a new interpreter: PYTHONHASHSEED=%d vs 0: %s' % (OPNAME[op], d, s, desc)))
            for q in json.loads(r['__defaults']):
                findings.append(('C18|mutable-default|%s' % q.split('#')[0], {'kind': 'hashseed', 'ev': [d, op]},
                                 '%s of %s alone in a new interpreter changed the default argument %s' % (OPNAME[op], d, q)))
    return base, xml, findings, len(raw)


# ----- one sequence in a pristine forked child --------------------------------------------------------------
BASE = {}
XML = {}


def _child_body(seq, base, xml):
    ctx = Ctx()
    res = []
    pchanged = []
    for ev in seq:
        ev = tuple(ev)
        before = dict(ctx.params.params) if ctx.params is not None else None
        obs = mask(ev[1], run_event(ev, ctx, lambda d: xml[d]))
        if ctx.params is not None:
            if before is None:
                before = dict(pyx12.params.params().params)      # first use: compare with a fresh object's content
            after = dict(ctx.params.params)
            for k in sorted(set(before) | set(after)):
                if before.get(k) != after.get(k):
                    pchanged.append('%s: %r -> %r during %s(%s,%s)' % (k, before.get(k), after.get(k), OPNAME[ev[1]], ev[0], ev[2]))
        diffs = compare(ev[1], obs, base[base_key(ev)])
        dig = hashlib.sha1(json.dumps(obs, sort_keys=True).encode()).hexdigest()[:8]
        res.append({'dig': dig, 'diffs': diffs, 'tag': obs.get('verdict') or obs.get('raises') or ''})
    now = mutable_defaults()
    changed = sorted(k for k in set(now) | set(DEFAULTS0) if now.get(k) != DEFAULTS0.get(k))
    return {'events': res, 'defaults': changed, 'params': pchanged}


def run_sequence(seq, base, xml):
    """fork; the child executes the sequence on the real code and reports differences from the baselines"""
    r, w = os.pipe()
    pid = os.fork()
    if pid == 0:
        code = 1
        try:
            os.close(r)
            signal.signal(signal.SIGALRM, signal.SIG_DFL)
            signal.alarm(300)
            try:
                out = _child_body(seq, base, xml)
            except BaseException as e:
                import traceback
                out = {'harness': ''.join(traceback.format_exception(type(e), e, e.__traceback__))}
            data = json.dumps(out).encode()
            with os.fdopen(w, 'wb') as f:
                f.write(data)
            code = 0
        finally:
            os._exit(code)
    os.close(w)
    chunks = []
    with os.fdopen(r, 'rb') as f:
        while True:
            b = f.read(1 << 16)
            if not b:
                break
            chunks.append(b)
    _, status = os.waitpid(pid, 0)
    if status != 0 or not chunks:
        raise RuntimeError('sequence child for %r ended with status %r' % (seq, status))
    out = json.loads(b''.join(chunks))
    if 'harness' in out:
        raise RuntimeError('sequence child for %r: %s' % (seq, out['harness']))
    return out


def judge(seq, out):
    """-> [(finding_key, message)]"""
    viols = []
    for i, (ev, r) in enumerate(zip(seq, out['events'])):
        for comp, desc in r['diffs']:
            hist = ' after ' + ', '.join('%s(%s,%s)' % (OPNAME[e[1]], e[0], e[2]) for e in seq[:i]) if i else ' as the first event of a forked process'
            viols.append(('C18|%s|%s' % (OPNAME[ev[1]], comp),
                          '%s(%s,%s)%s differs from the same event alone in a new interpreter: %s'
                          % (OPNAME[ev[1]], ev[0], ev[2], hist, desc)))
    for q in out.get('params', []):
        viols.append(('C18|params|the caller\'s params object was changed by the library', 'shared params object: %s' % q))
    for q in out['defaults']:
        viols.append(('C18|mutable-default|%s' % q.split('#')[0],
                      'default argument %s is no longer %s after %s' % (q, DEFAULTS0.get(q), [list(e) for e in seq])))
    return viols


def work(shard):
    P = core.Part()
    for seq in shard:
        out = run_sequence(seq, BASE, XML)
        P.n += 1
        P.states += 1
        P.transitions += len(seq)
        P.counters['sequences_len_%d' % len(seq)] += 1
        for ev, r in zip(seq, out['events']):
            P.out('%s|%s|%s|%s|%s' % (ev[0], ev[1], ev[2], r['tag'], r['dig']))
        for k, m in judge(seq, out):
            P.bad(k, {'kind': 'seq', 'seq': [list(e) for e in seq]}, m)
        if len(seq) > 1 and P.n % 29 == 3:
            P.sample({'sequence': [list(e) for e in seq], 'digests': [r['dig'] for r in out['events']], 'agrees_with_fresh_interpreter': not any(r['diffs'] for r in out['events'])}, cap=1)
    return P


def evaluate(case):
    if case.get('kind') == 'hashseed':
        d, op = case['ev']
        _, _, findings, _ = baselines_for([(d, op)], min(4, core.NPROC))
        return [(k, m) for k, c, m in findings]
    seq = [tuple(e) for e in case['seq']]
    base, xml, _, _ = baselines_for([(e[0], e[1]) for e in seq], min(4, core.NPROC))
    return judge(seq, run_sequence(seq, base, xml))


CROSS = None


def cross(tier):
    global CROSS
    if CROSS is None or CROSS[0] != tier:
        CROSS = (tier,) + cross_map_pairs(tier == 'thorough')
    return CROSS[1], CROSS[2]


def sequences(tier):
    full = alphabet_full()
    seqs = [(a,) for a in full] + [(a, b) for a in full for b in full]
    for a, b in cross(tier)[0]:
        seqs.append(((a, 'v', 'F'), (b, 'v', 'F')))
        seqs.append(((b, 'v', 'F'), (a, 'v', 'F')))
        seqs.append(((a, 'c', 'F'), (b, 'c', 'F')))
    n2 = len(seqs)
    n3 = 0
    if tier == 'thorough':
        sub = alphabet_sub()
        s3 = [(a, b, c) for a in sub for b in sub for c in sub]
        n3 = len(s3)
        seqs += s3
    return seqs, len(full), n2, n3


def run(R):
    global BASE, XML
    seqs, nfull, n2, n3 = sequences(R.tier)
    pairs = sorted(set((d, op) for d, op, _ in alphabet_full()))
    alt_map_dir()           # created before the workers fork, removed when this process exits
    xp, xskip = cross(R.tier)
    pairs += sorted(set((d, op) for ab in xp for d in ab for op in ('v', 'c')))
    R.total.counters['cross-map pairs'] = len(xp)
    R.total.counters['cross-map pairs whose documents cannot be generated unambiguously'] = xskip
    BASE, XML, findings, nbase = baselines_for(pairs, core.NPROC)
    R.total.n += nbase
    R.total.counters['baseline_interpreters'] = nbase
    for k, c, m in findings:
        R.total.bad(k, c, m)
    for k in sorted(BASE):
        R.total.out('baseline|%s|%s' % (k, hashlib.sha1(json.dumps(BASE[k], sort_keys=True).encode()).hexdigest()[:8]))
    # interleave so that every shard has a similar mix of cheap and expensive sequences
    nshards = max(1, min(len(seqs), core.NPROC * 8))
    shards = [seqs[i::nshards] for i in range(nshards)]
    R.pmap(work, shards)
    R.bounds = {'documents': DOC_ORDER, 'events': nfull, 'event': 'document x {validate, context} x {fresh params, reused params, reused params+maps} + document x xml2x12 + 3 documents x {validate, context} under other parameter values (charset B, external set states excluded) + 3 documents validated under another map_path (a site copy, itself named map, whose codes.xml lacks a state code and whose maps.xml lacks the 4010 835)',
                'cross-map pairs': 'for every (node id, parent id) that occurs in several maps with different repeat limits (%s): document A of the stricter map enters the node once, document B of the other map repeats it once more than A allows; sequences [A,B], [B,A] validated and [A,B] read by the context reader; plus the 4010 and 5010 version of one transaction with everything filled at minimal / maximal value lengths' % ('loops and segments' if R.thorough else 'loops'),
                'sequences_len<=2': n2, 'sequences_len3_over_24_event_subalphabet': n3,
                'hash_seeds': list(SEEDS), 'baseline_interpreters': nbase,
                'mutable_defaults_watched': sorted(DEFAULTS0)}
    R.assumptions = ['a forked child of a process that imported pyx12 without executing it is pristine; length-1 sequences compare it with a new interpreter',
                     'map reuse is modelled by memoising pyx12.map_if.load_map_file per (file, params object) for the sequence; no public entry point accepts a map object',
                     'the acknowledgement fields ISA09/10/13, GS04/05/06, ST02, SE02, GE02, IEA02 (timestamps, generated control numbers) and the first "<h3>Analysis Date:" line of the HTML are masked; everything else is compared byte for byte',
                     'context-reader events that raise (278 map switch) are compared on the exception type/location and the output produced before it']
    return R.finish(LEVEL, 'every history of events up to the bound, each in a pristine forked child, every event compared with its fresh-interpreter baseline; '
                    'distinct = (event, verdict, masked observation digest)', exhaustive=True)
