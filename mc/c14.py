"""
C14 - syntax notes P/R/E/C/L evaluated exactly as X12 defines them.
Complete product: every note of every shipped map x every segment length x every presence pattern
of the mentioned positions x {unmentioned positions filled, empty}.
Level 1: pyx12.syntax.is_syntax_valid (with the note as parsed by the real segment node).
Level 2: segment_if.is_valid -- differential on the element-error multiset with/without the note.
Level 3: the same call against the REAL error handler (an open ISA/GS/ST with the segment added): every element and
segment error that validation reported (level 2's recording handler) must be found in the error tree under the
segment -- in particular the note's own error when its first element carries an error of its own.
Level 4: for a violated note that tree is closed and rendered by the real 997 and 999 visitors: an AK4 / IK4 line with
the note's code (10 for E, 2 otherwise) must be written.
"""
import itertools, collections
from mc import core, grammar as G

ID = 'C14'
LEVEL = 'model_checking'
FULL_IN_QUICK = True     # the complete space costs seconds: quick == thorough


def violated(kind, pres):
    """the five X12 definitions, verbatim; pres = presence flags of the mentioned positions in order"""
    if kind == 'P':
        return any(pres) and not all(pres)
    if kind == 'R':
        return not any(pres)
    if kind == 'E':
        return sum(pres) > 1
    if kind == 'C':
        return pres[0] and not all(pres[1:])
    if kind == 'L':
        return pres[0] and not any(pres[1:])
    raise ValueError(kind)


def build(segid, L, present, fill, compvar, comps):
    parts = [segid]
    for p in range(1, L + 1):
        if p in present:
            parts.append(':X' if (compvar and p in comps) else 'X')
        else:
            parts.append('X' if (fill and p not in present and p not in build.mentioned) else '')
    return parts


def cases_for(text, nchild):
    kind, idx = G.syntax_parts(text)
    top = max(max(idx), nchild) + 1
    for L in range(0, top + 1):
        cand = [p for p in idx if p <= L]
        for r in range(len(cand) + 1):
            for present in itertools.combinations(cand, r):
                for fill in (0, 1):
                    yield L, list(present), fill


def run_case(node, gseg, text, L, present, fill, level, compvar=0):
    """returns list of (key, msg)"""
    from pyx12 import syntax as S
    from mc import impl
    out = []
    kind, idx = G.syntax_parts(text)
    comps = set(c.seq for c in gseg.children if c.kind == 'comp')
    build.mentioned = set(idx)
    seg = impl.mkseg(build(gseg.id, L, set(present), fill, compvar, comps))
    pres = [p in present for p in idx]
    exp = violated(kind, pres)
    # the note as the real node parsed it
    mine = [kind] + idx
    syn = None
    for s in node.syntax:
        if list(s) == mine:
            syn = s
    if syn is None:
        return [('C14|parse|%s' % text, 'segment %s: note %s was parsed as %r, expected %r among them' % (gseg.path, text, node.syntax, mine))]
    if level == 1:
        try:
            ok, msg = S.is_syntax_valid(seg, list(syn))
        except Exception as e:
            return [('C14|L1|%s|raises %s@%s' % (kind, type(e).__name__, core.where(e)), 'is_syntax_valid(%s, %s) raised %r' % (seg.format(), text, e))]
        if bool(ok) == exp:
            out.append(('C14|L1|%s|%s' % (kind, 'missed-violation' if exp else 'false-violation'),
                        'is_syntax_valid(%s, %s) = %r but the definition says violated=%r (present=%s, len=%d)' % (seg.format(), text, ok, exp, present, L)))
        return out
    if level == 3:
        return level3(node, seg, text, kind, exp)
    # level 2: differential through segment_if.is_valid
    saved = node.syntax
    try:
        e1 = impl.errh_list()
        try:
            v1 = node.is_valid(seg, e1)
        except Exception as e:
            if type(e).__name__ == 'EngineError' and 'is not defined' in str(e):
                return [('SKIP', 'dangling data element / code set reference (C16 domain)')]
            return [('C14|L2|raises %s@%s' % (type(e).__name__, core.where(e)), 'is_valid(%s) raised %r' % (seg.format(), e))]
        node.syntax = [s for s in saved if s is not syn]
        e0 = impl.errh_list()
        v0 = node.is_valid(seg, e0)
    finally:
        node.syntax = saved
    c1 = collections.Counter((c, r) for (c, m, v, r) in e1.err_ele)
    c0 = collections.Counter((c, r) for (c, m, v, r) in e0.err_ele)
    extra = c1 - c0
    lost = c0 - c1
    code = '10' if kind == 'E' else '2'
    if lost:
        out.append(('C14|L2|%s|note-removes-errors' % kind, '%s %s: errors %r vanish when the note is active' % (seg.format(), text, dict(lost))))
    n_extra = sum(extra.values())
    if exp:
        codes = set(c for (c, r) in extra)
        if n_extra != 1 or codes != {code}:
            out.append(('C14|L2|%s|violation-reported-as-%s' % (kind, sorted(extra.items()) and ','.join(sorted(codes)) or 'nothing'),
                        '%s violates %s: expected exactly one element error code %s, extra errors were %r' % (seg.format(), text, code, dict(extra))))
        if v1:
            out.append(('C14|L2|%s|violated-but-valid' % kind, '%s violates %s but is_valid returned True' % (seg.format(), text)))
    else:
        if n_extra:
            out.append(('C14|L2|%s|satisfied-note-reports' % kind, '%s satisfies %s but extra errors %r' % (seg.format(), text, dict(extra))))
        if bool(v1) != bool(v0):
            out.append(('C14|L2|%s|satisfied-note-changes-verdict' % kind, '%s: verdict %r with the note, %r without' % (seg.format(), v1, v0)))
    return out


class FakeSrc(object):
    """what the error-tree nodes ask of a reader when they are created"""
    st_count = 1

    def get_cur_line(self): return 1
    def get_isa_id(self): return '000000001'
    def get_gs_id(self): return '1'
    def get_st_id(self): return '0001'
    def get_seg_count(self): return 2
    def get_ls_id(self): return None


def ack_lines(errh, src):
    """close the open set / group / interchange of a real err_handler and render it with the real 997 and 999 visitors
    -> {'997': [[seg id, e1, ...], ...], '999': [...]}"""
    import io as _io
    import pyx12.segment, pyx12.error_997, pyx12.error_999
    from mc import ref
    S = lambda t: pyx12.segment.Segment(t, '~', '*', ':')
    errh.close_st_loop(None, S('SE*3*0001~'), src)
    errh.close_gs_loop(None, S('GE*1*1~'), src)
    errh.close_isa_loop(None, S('IEA*1*000000001~'), src)
    out = {}
    for name, cls in (('997', pyx12.error_997.error_997_visitor), ('999', pyx12.error_999.error_999_visitor)):
        fd = _io.StringIO()
        errh.accept(cls(fd, ('~', '*', ':', '\n')))
        out[name] = [p.strip().split('*') for p in fd.getvalue().split('~') if p.strip()]
    return out


def real_tree_codes(node, seg, want_ack=False):
    """validate seg with node against a real err_handler -> (verdict, Counter of ('ele'|'seg', code))"""
    import pyx12.error_handler, pyx12.segment
    from mc import ref
    src = FakeSrc()
    errh = pyx12.error_handler.err_handler()
    isa = pyx12.segment.Segment(ref.isa(), '~', '*', ':')
    errh.add_isa_loop(isa, src)
    errh.add_gs_loop(pyx12.segment.Segment('GS*HC*S*R*20040102*1200*1*X*004010X098A1~', '~', '*', ':'), src)
    errh.add_st_loop(pyx12.segment.Segment('ST*837*0001~', '~', '*', ':'), src)
    # in the pipeline the ST segment has been validated by now, which leaves an element cursor behind
    errh.add_ele(node.get_child_node_by_idx(0))
    errh.add_seg(node, seg, 2, 2, None)
    v = node.is_valid(seg, errh)
    got = collections.Counter()
    for sn in errh.cur_st_node.children:
        for e in sn.errors:
            got[('seg', e[0])] += 1
        for en in sn.elements:
            for e in en.errors:
                got[('ele', e[0])] += 1
    if want_ack:
        return v, got, ack_lines(errh, src)
    return v, got


def level3(node, seg, text, kind, exp=False, first=None):
    from mc import impl
    e1 = impl.errh_list()
    try:
        v1 = node.is_valid(seg, e1)
    except Exception as e:
        return []          # level 2 reports it
    want = collections.Counter([('ele', c) for (c, m, v, r) in e1.err_ele] + [('seg', x[0]) for x in e1.err_seg])
    acks = None
    try:
        if exp:
            v3, got, acks = real_tree_codes(node, seg, True)
        else:
            v3, got = real_tree_codes(node, seg)
    except Exception as e:
        return [('C14|L3|raises %s@%s' % (type(e).__name__, core.where(e)), 'is_valid(%s) against the real error handler raised %r' % (seg.format(), e))]
    out = []
    if bool(v3) != bool(v1):
        out.append(('C14|L3|verdict differs between handlers', '%s: %r with the recording handler, %r with the real one' % (seg.format(), v1, v3)))
    if got != want:
        lost = want - got
        extra = got - want
        code = '10' if kind == 'E' else '2'
        what = 'note error lost' if ('ele', code) in lost else ('errors lost' if lost else 'errors added')
        out.append(('C14|L3|%s|%s' % (kind, what), '%s (note %s): validation reported %r, the error tree under the segment holds %r' % (seg.format(), text, dict(want), dict(got))))
    if acks and not out:
        # level 4: the violated note's own error reaches both acknowledgements as an AK4 / IK4 line with its code
        code = '10' if kind == 'E' else '2'
        for name, lines in sorted(acks.items()):
            tag = 'AK4' if name == '997' else 'IK4'
            if not any(l[0] == tag and len(l) > 3 and l[3] == code for l in lines):
                out.append(('C14|L4|%s|note error not in the %s' % (kind, name), '%s violates %s: no %s line with code %s; element lines written: %r'
                            % (seg.format(), text, tag, code, ['*'.join(l) for l in lines if l[0] in ('AK3', 'AK4', 'IK3', 'IK4')])))
    return out


def _find(fname, segpath, ordinal):
    from mc import impl
    m = impl.load_map(fname)
    gm = G.load(fname)
    rs = impl.seg_nodes(m)
    gs = G.segments(gm)
    return rs[ordinal], gs[ordinal]


def evaluate(case):
    node, gseg = _find(case['map'], case['path'], case['ordinal'])
    return [x for x in run_case(node, gseg, case['note'], case['L'], case['present'], case['fill'], case['level'], case.get('compvar', 0)) if x[0] != 'SKIP']


def work(shard):
    from mc import impl
    fname, ordinals, level2_all = shard
    P = core.Part()
    try:
        m = impl.load_map(fname)
    except Exception as e:
        P.counters['maps_that_do_not_load(C16)'] += 1
        return P
    gm = G.load(fname)
    rs = impl.seg_nodes(m)
    gs = G.segments(gm)
    if len(rs) != len(gs) or any(a.id != b.id for a, b in zip(rs, gs)):
        P.bad('C14|harness|%s' % fname, {'map': fname}, 'segment lists of the two readings differ')
        return P
    for o in ordinals:
        node, gseg = rs[o], gs[o]
        comps = set(c.seq for c in gseg.children if c.kind == 'comp')
        for text in gseg.syntax:
            kind, idx = G.syntax_parts(text)
            for L, present, fill in cases_for(text, len(gseg.children)):
                for level in (1, 2, 3):
                    for compvar in ((0, 1) if (level >= 2 and comps & set(present)) else (0,)):
                        P.n += 1
                        P.transitions += 1
                        r = run_case(node, gseg, text, L, present, fill, level, compvar)
                        exp = violated(kind, [p in present for p in idx])
                        P.out('%s|%d|%s|L%d' % (kind, len(idx), exp, level))
                        for k, msg in r:
                            if k == 'SKIP':
                                P.counters['skipped:' + msg] += 1
                                continue
                            P.bad(k, {'map': fname, 'path': gseg.path, 'ordinal': o, 'note': text, 'L': L, 'present': present,
                                      'fill': fill, 'level': level, 'compvar': compvar}, msg)
                        if P.n % 20000 == 7:
                            P.sample({'map': fname, 'segment': gseg.path, 'note': text, 'len': L, 'present': present, 'violated': exp}, cap=1)
        P.states += 1
    return P


def run(R):
    shards = []
    seen = set()
    nnotes = 0
    for f in G.map_files():
        try:
            gm = G.load(f)
        except Exception:
            continue
        ords = []
        for o, s in enumerate(G.segments(gm)):
            if not s.syntax:
                continue
            nnotes += len(s.syntax)
            sig = (s.id, tuple(s.syntax), tuple((c.kind, c.usage, c.seq, getattr(c, 'de', None), len(getattr(c, 'children', []))) for c in s.children))
            if not R.thorough:
                if sig in seen:
                    continue
                seen.add(sig)
            ords.append(o)
        for ch in core.chunks(ords, 4 if R.thorough else 1):
            if ch:
                shards.append((f, ch, R.thorough))
    R.bounds = {'notes_in_maps': nnotes, 'segment_nodes_explored': sum(len(s[1]) for s in shards),
                'dedup': 'none (every segment node of every map file)' if R.thorough else 'one node per (segment id, notes, child definition signature)',
                'lengths': '0..max(mentioned position, child count)+1', 'patterns': 'all subsets of mentioned positions <= length; unmentioned filled / empty'}
    R.assumptions = ['level 3 compares error codes per kind (element / segment) between the recording handler and the real error tree of one open set', 'level 2 is differential: the element errors not caused by the note are whatever the same node reports with the note removed (C15 judges those)']
    R.pmap(work, shards)
    return R.finish(LEVEL, 'complete product of notes x lengths x presence patterns; distinct = (note type, arity, violated?, level)', exhaustive=True)
