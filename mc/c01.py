"""
C01 - tokenisation is lossless and independent of read chunking and source kind.
E1: every body over an 8-symbol alphabet up to a length bound, x delimiter triples, x every read
schedule with <= d short reads at small buffer sizes (so that every segment straddles a refill),
x boundary windows around the real 8 KiB buffer, x source kinds; oracle = reference tokenizer.
"""
import io, os, itertools, tempfile, shutil
from mc import core, ref

ID = 'C01'
LEVEL = 'model_checking'


class ChunkedStream(object):
    """text stream whose every read(k) length is an explorer choice (default: full read)"""

    def __init__(self, text, ctx=None, policy=None):
        self.text = text; self.pos = 0; self.ctx = ctx; self.policy = policy
        self.closed = False
        self.reads = 0

    def read(self, k=-1):
        rem = len(self.text) - self.pos
        self.reads += 1
        if self.reads > 200000:
            raise RuntimeError('reader does not terminate')
        if k is None or k < 0:
            k = rem
        full = min(k, rem)
        r = full
        if full > 1:
            if self.policy == 'one':
                r = 1
            elif self.policy == 'short1':
                r = full - 1
            elif self.policy == 'half':
                r = max(1, full // 2)
            elif self.ctx is not None:
                alts = menu(full)
                c = self.ctx.choose(1 + len(alts), 'read(%d)@%d' % (k, self.pos))
                if c:
                    r = alts[c - 1]
        out = self.text[self.pos:self.pos + r]
        self.pos += r
        return out

    def close(self):
        self.closed = True


def menu(full):
    """short-read lengths offered as deviations for a read that could return `full` characters"""
    if full <= 9:
        return list(range(1, full))
    return sorted(set([1, 2, full // 2, full - 2, full - 1]))


def matrix(seg):
    m = []
    for i in range(len(seg)):
        rd = '%02d' % (i + 1)
        n = seg.ele_len(rd)
        m.append([seg.get_value('%s-%d' % (rd, j + 1)) for j in range(n)])
    return [seg.get_seg_id(), m]


def read_all(src, bufsize=None, resume_at=None, opts=None):
    """-> list of (matrix, errors, formatted) or raises.  resume_at=k: leave the loop after k segments and go on
    with a second loop over the same reader (the stream must simply continue)"""
    import pyx12.x12file, pyx12.rawx12file
    old = pyx12.rawx12file.DEFAULT_BUFSIZE
    if bufsize:
        pyx12.rawx12file.DEFAULT_BUFSIZE = bufsize
    try:
        rd = pyx12.x12file.X12Reader(src)
        for k in sorted(opts or {}):
            assert hasattr(rd, k), k
            setattr(rd, k, opts[k])
        out = []
        if resume_at:
            for seg in rd:
                errs = rd.pop_errors()
                out.append((matrix(seg), [(e[0], e[1]) for e in errs], seg.format()))
                if len(out) >= resume_at:
                    break
        for seg in rd:
            errs = rd.pop_errors()
            out.append((matrix(seg), [(e[0], e[1]) for e in errs], seg.format()))
        return out
    finally:
        pyx12.rawx12file.DEFAULT_BUFSIZE = old


def judge(text, got, tag):
    """compare one observed stream with the reference tokenizer; -> list of (key, msg)"""
    toks, d = ref.tokenize(text)
    if any(t.murky for t in toks):
        return None          # the statement does not fix these (CR/LF after leading blanks / blank-only piece)
    out = []
    exp = [t.matrix() for t in toks]
    gm = [g[0] for g in got]
    if gm != exp:
        # classify
        if len(gm) < len(exp) and gm == exp[:len(gm)]:
            kind = 'stream-ends-early'
        elif len(gm) > len(exp):
            kind = 'extra-segments'
        else:
            kind = 'values-differ'
        out.append(('C01|%s|%s' % (tag, kind), 'text=%r: read %r, reference %r' % (text[106:], gm[1:], exp[1:])))
        return out
    for t, (m, errs, fmt) in zip(toks, got):
        has1 = ('seg', '1') in errs
        if t.blank and not has1:
            out.append(('C01|%s|blank-not-reported' % tag, 'piece %r had leading blanks, errors %r' % (t.raw, errs)))
        if not t.blank and ref.segid_ok(t.id) and has1:
            out.append(('C01|%s|spurious-seg-error-1' % tag, 'piece %r: errors %r' % (t.raw, errs)))
    ftxt = ''.join(g[2] for g in got)
    ntxt = ref.normal_text(toks, d)
    if ftxt != ntxt:
        out.append(('C01|%s|format-not-normalised' % tag, 'formatted %r, expected %r' % (ftxt[106:], ntxt[106:])))
    return out


def reread_ok(text, got):
    """format + read again gives the same segments (modulo trimmed trailing empties)"""
    ftxt = ''.join(g[2] for g in got)
    try:
        again = read_all(io.StringIO(ftxt))
    except Exception as e:
        return [('C01|reread|raises %s@%s' % (type(e).__name__, core.where(e)), 'formatted text %r cannot be read again: %r' % (ftxt[106:], e))]
    a = [[m[0], ref.trim(m[1])] if m[0] != 'ISA' else m for (m, _, _) in got]
    b = [[m[0], ref.trim(m[1])] if m[0] != 'ISA' else m for (m, _, _) in again]
    if a != b:
        return [('C01|reread|differs', 'formatted %r re-read as %r, was %r' % (ftxt[106:], b[1:], a[1:]))]
    return []


def run_one(text, bufsize, prefix=None, policy=None, kind='stringio', tag=None, resume_at=None, opts=None):
    """one execution -> (violations or None, ctx)"""
    if opts:
        try:
            got = read_all(io.StringIO(text), bufsize, None, opts)
        except Exception as e:
            return [('C01|options|raises %s@%s' % (type(e).__name__, core.where(e)), 'text=%r, reader options %r: %r' % (text[106:], opts, e))], None
        return judge(text, got, 'options'), None
    if resume_at and kind == 'stringio':
        try:
            got = read_all(io.StringIO(text), bufsize, resume_at)
        except Exception as e:
            return [('C01|resume|raises %s@%s' % (type(e).__name__, core.where(e)), 'text=%r, loop left after %d segments and resumed: %r' % (text[106:], resume_at, e))], None
        v = judge(text, got, 'resume')
        return v, None
    ctx = core.Ctx(prefix or [])
    tag = 'reader'
    tmp = None
    try:
        if kind == 'stringio':
            src = ChunkedStream(text, ctx if policy is None else None, policy)
        elif kind == 'plain':
            src = io.StringIO(text)
        elif kind.startswith('plain@'):
            # an open stream is read from where the caller positioned it: behind a transport header line / an earlier interchange
            pre = PREFIXES[kind[6:]]
            src = io.StringIO(pre + text)
            src.seek(len(pre))
        else:
            tmp = tempfile.mkdtemp(prefix='c01_', dir=os.environ.get('VERIF_SCRATCH', '/dev/shm'))
            p = os.path.join(tmp, 'in.x12')
            pre = PREFIXES[kind[5:]] if kind.startswith('file@') else ''
            with open(p, 'w', encoding='ascii', newline='') as f:
                f.write(pre + text)
            src = p if kind == 'path' else open(p, 'r', encoding='ascii')
            if pre:
                src.read(len(pre))
        try:
            got = read_all(src, bufsize, resume_at if kind != 'stringio' else None)
        except Exception as e:
            sched = 'default' if not (policy or any(ctx.choices)) else 'short-read'
            return [('C01|%s|%s|raises %s@%s' % (tag, kind if kind != 'stringio' else sched, type(e).__name__, core.where(e)),
                     'text=%r choices=%r policy=%r: %r' % (text[106:], ctx.choices, policy, e))], ctx
        finally:
            if kind.startswith('file'):
                src.close()
        v = judge(text, got, tag if kind == 'stringio' else tag + '|' + kind)
        if v is None:
            return None, ctx
        if not v and policy is None and not any(ctx.choices):
            v = v + reread_ok(text, got)
        return v, ctx
    finally:
        if tmp:
            shutil.rmtree(tmp, ignore_errors=True)


def evaluate(case):
    v, _ = run_one(case['text'], case.get('bufsize'), case.get('choices'), case.get('policy'), case.get('kind', 'stringio'), resume_at=case.get('resume_at'), opts=case.get('opts'))
    return v or []


# ----- enumeration ---------------------------------------------------------------------------------
def alphabet(d):
    seg, ele, sub = d
    return ['A', '1', ele, sub, seg, '\n', '\r', ' ']


def bodies(d, n, first):
    a = alphabet(d)
    if first is None:
        yield ''
        return
    for k in range(0, n):
        for tup in itertools.product(a, repeat=k):
            yield first + ''.join(tup)


def work(shard):
    mode, d, icvn, first, n, bufsizes, dev = shard
    P = core.Part()
    hdr = ref.isa(icvn, *d)
    for body in bodies(d, n, first):
        text = hdr + body
        for bs in bufsizes:
            def visit(ctx, res):
                pass
            # E1: iterative deviation bounding over the read schedule
            stack = [([], 0)]
            while stack:
                prefix, devs = stack.pop()
                v, ctx = run_one(text, bs, prefix)
                P.n += 1
                if v is None:
                    P.counters['unspecified_by_statement'] += 1
                    break
                P.out('%d|%d' % (len(ref.tokenize(text)[0]), min(devs, 2)))
                for k, msg in v:
                    P.bad(k, {'text': text, 'bufsize': bs, 'choices': ctx.choices}, msg)
                if devs < dev:
                    for i in range(len(prefix), len(ctx.points)):
                        for alt in range(1, ctx.points[i]):
                            stack.append((ctx.choices[:i] + [alt], devs + 1))
            else:
                for pol in ('one', 'short1'):
                    v, ctx = run_one(text, bs, None, pol)
                    P.n += 1
                    for k, msg in (v or []):
                        P.bad(k, {'text': text, 'bufsize': bs, 'policy': pol}, msg)
        if P.n % 4000 < 3:
            P.sample({'body': body, 'delims': d, 'bufsizes': bufsizes, 'short_reads<=': dev}, cap=2)
    return P


SPECIALS = None


def window_docs(d, icvn, span):
    """documents whose special characters land at every offset -span..+span around the 8 KiB refills"""
    seg, ele, sub = d
    hdr = ref.isa(icvn, *d)
    tails = ['A1' + ele + 'A' + seg, ele + seg, 'A1' + ele + 'A' + sub + '1' + seg + '\r\n', seg + '\n' + ' A1' + seg,
             'A1' + ele + sub + ele + seg + '\n', 'A1' + seg + '\r' + 'AA' + ele + '1' + seg]
    for boundary in (106 + 8192, 106 + 2 * 8192):
        for off in range(-span, span + 1):
            for t in tails:
                for j in range(len(t)):
                    # place character j of the tail exactly at `boundary + off`
                    padlen = boundary + off - j - len(hdr) - len('AA' + ele) - 1
                    if padlen < 1:
                        continue
                    text = hdr + 'AA' + ele + 'A' * padlen + seg + t + 'A1' + ele + '1' + seg
                    yield text
    # one segment longer than two and than four read buffers, followed by ordinary segments
    for L in (2 * 8192 - 120, 2 * 8192 - 106, 2 * 8192, 17000, 20000, 4 * 8192 + 5):
        yield hdr + 'A1' + ele + '1' + seg + 'BIN' + ele + 'A' * L + seg + 'A2' + ele + 'x' + sub + 'y' + seg + '\n' + 'A3' + ele + '3' + seg


def work_windows(shard):
    d, icvn, span, part, nparts, thorough = shard
    P = core.Part()
    for i, text in enumerate(window_docs(d, icvn, span)):
        if i % nparts != part:
            continue
        for pol in ([None, 'short1', 'half'] + (['one'] if thorough else [])):
            v, ctx = run_one(text, None, None, pol, tag='win8k')
            P.n += 1
            P.out('win|%s' % pol)
            for k, msg in (v or []):
                P.bad(k, {'text': text, 'policy': pol}, msg[:300])
        # long segment (> one buffer) is part of every window document (the padding segment)
    P.sample({'window_doc_len': len(text), 'policies': ['default', 'short1', 'half']}, cap=1)
    return P


def work_resume(shard):
    """every body, every point k at which the consumer leaves its loop and starts another one on the same reader"""
    d, icvn, first, n, bufsizes = shard
    P = core.Part()
    hdr = ref.isa(icvn, *d)
    for body in bodies(d, n, first):
        text = hdr + body
        toks, _ = ref.tokenize(text)
        if any(t.murky for t in toks):
            continue
        nseg = len([t for t in toks if t.id is not None])
        for bs in bufsizes:
            for k in range(1, nseg + 1):
                v, _ = run_one(text, bs, resume_at=k)
                P.n += 1
                P.out('resume|%d' % min(k, 3))
                for key, msg in (v or []):
                    P.bad(key, {'text': text, 'bufsize': bs, 'resume_at': k}, msg)
    return P


PREFIXES = {'line': '$$REQUEST ID=1 BATCH=7\n', 'interchange': ref.isa('00401', '!', '|', '>', ctl='000000099') + 'IEA|0|000000099!'}


def work_kinds(shard):
    d, icvn, n = shard
    P = core.Part()
    hdr = ref.isa(icvn, *d)
    for first in [None] + alphabet(d):
        for body in bodies(d, n, first):
            if '\r' in body:
                continue       # text-mode files translate CR; only the CR-free language is comparable
            text = hdr + body
            for kind in ('plain', 'file', 'path', 'plain@line', 'plain@interchange', 'file@line', 'file@interchange'):
                v, ctx = run_one(text, None, None, None, kind)
                P.n += 1
                P.out('kind|%s' % kind)
                for k, msg in (v or []):
                    P.bad(k, {'text': text, 'kind': kind}, msg)
            # the consumer leaves its loop after k segments and iterates again, on a source the reader opened itself (path)
            # or was handed open; buffer 3: every later segment needs another read from the source
            nseg = len([t for t in ref.tokenize(text)[0] if t.id is not None])
            for kind in ('plain', 'file', 'path'):
                for k in range(1, min(nseg, 2) + 1):
                    v, ctx = run_one(text, 3, None, None, kind, resume_at=k)
                    P.n += 1
                    P.out('kind+resume|%s' % kind)
                    for key, msg in (v or []):
                        P.bad(key, {'text': text, 'kind': kind, 'bufsize': 3, 'resume_at': k}, msg)
    return P


def option_segments(d):
    """segments the reader's optional checks look at (the 837 service-line counter: CLM resets it, LX is compared with it)"""
    seg, ele, sub = d
    return [x + seg for x in ('CLM' + ele + '1', 'LX' + ele + '1', 'LX' + ele + '2', 'LX' + ele + '4', 'LX' + ele + '01', 'LX' + ele + 'A' + sub + '1', 'LX', 'ST' + ele + '837' + ele + '0001', 'SE' + ele + '2' + ele + '0001')]


def work_options(shard):
    """the reader with its optional checks switched on still only reports: what it hands over is what is in the text"""
    d, icvn, n, first = shard
    P = core.Part()
    hdr = ref.isa(icvn, *d)
    al = option_segments(d)
    for k in range(0, n):
        for rest in itertools.product(al, repeat=k):
            text = hdr + first + ''.join(rest)
            for bs in (None, 3):
                v, _ = run_one(text, bs, opts={'check_837_lx': True})
                P.n += 1
                if v is None:
                    P.counters['unspecified_by_statement'] += 1
                    continue
                P.out('options|%d' % (k + 1))
                for key, msg in v:
                    P.bad(key, {'text': text, 'bufsize': bs, 'opts': {'check_837_lx': True}}, msg)
    return P


def isa_variants(d, icvn):
    """well-formed ISA headers whose fixed-width fields contain the component separator (and blanks)
    at the first / middle / last position of ISA02, ISA04, ISA06, ISA08 -- singly and all at once"""
    seg, ele, sub = d
    base = ref.isa(icvn, *d)[:-1].split(ele)
    out = []
    slots = (2, 4, 6, 8)
    for idx in slots:
        w = len(base[idx])
        for pos in (0, w // 2, w - 1):
            p = list(base)
            p[idx] = p[idx][:pos] + sub + p[idx][pos + 1:]
            out.append(ele.join(p) + seg)
    p = list(base)
    for idx in slots:
        p[idx] = sub + p[idx][1:-1] + sub
    out.append(ele.join(p) + seg)
    p = list(base)
    p[9] = p[9][:3] + sub + p[9][4:]          # inside the date
    out.append(ele.join(p) + seg)
    return out


def work_isa(shard):
    d, icvn, n = shard
    P = core.Part()
    seg, ele, sub = d
    for hdr in isa_variants(d, icvn):
        assert len(hdr) == 106
        tails = [b for first in [None] + alphabet(d) for b in bodies(d, n, first)]
        tails.append('A1' + ele + 'A' + sub + '1' + seg + hdr + 'B2' + ele + sub + seg)       # the same header again, mid-stream
        for body in tails:
            text = hdr + body
            for bs, pol in ((None, None), (3, None), (None, 'one')):
                v, ctx = run_one(text, bs, None, pol)
                P.n += 1
                if v is None:
                    P.counters['unspecified_by_statement'] += 1
                    continue
                P.out('isa|%d' % len(ref.tokenize(text)[0]))
                for k, msg in v:
                    P.bad(k, {'text': text, 'bufsize': bs, 'policy': pol}, 'header %r: %s' % (hdr, msg))
    P.sample({'isa_header_with_separator_in_field': hdr}, cap=1)
    return P


TRIPLES_Q = [('~', '*', ':'), ('\n', '*', ':'), ('!', '|', '>'), ('~', '*', '\\'), ('\x1c', '\x1d', '\x1e'), ('+', '&', '!')]


def triples(thorough):
    if not thorough:
        return TRIPLES_Q
    segs = ['~', '\n', '!', '\x1c', '\r']
    eles = ['*', '|', '\x1d']
    subs = [':', '>', '\\', '\x1e']
    return [(s, e, c) for s in segs for e in eles for c in subs if len({s, e, c}) == 3]


def run(R):
    T = R.thorough
    shards = []
    std = ('~', '*', ':')
    nA = 7 if T else 6
    nB = 5 if T else 4
    devB = 2 if T else 1
    nC = 5 if T else 4
    for icvn in ('00401', '00501'):
        for first in [None] + alphabet(std):
            if icvn == '00501' and not T and first not in (None, 'A', '~'):
                continue
            # A: long bodies, real buffer size, default schedule + extreme schedules
            shards.append(('A', std, icvn, first, nA, [8192], 0))
    for first in [None] + alphabet(std):
        # B: every schedule with <= devB short reads at buffer sizes that make every segment straddle a refill
        shards.append(('B', std, '00401', first, nB, [1, 2, 3, 5, 8], devB))
    for d in triples(T):
        if d == std:
            continue
        for first in [None] + alphabet(d):
            shards.append(('C', d, '00401', first, nC, [8192, 3], 1 if T else 0))
    R.pmap(work, shards)
    span = 3 if T else 2
    wsh = [(d, icvn, span, p, 8, T) for d in (std, ('\n', '|', '>')) for icvn in (['00401', '00501'] if T else ['00401']) for p in range(8)]
    R.pmap(work_windows, wsh)
    R.pmap(work_isa, [(d, icvn, 3 if T else 2) for d in triples(T) for icvn in ('00401', '00501')])
    nR = 5 if T else 4
    R.pmap(work_resume, [(std, '00401', first, nR, [None, 3]) for first in [None] + alphabet(std)])
    R.pmap(work_kinds, [(std, '00401', 4 if T else 3), (('!', '|', '>'), '00501', 3)])
    nO = 5 if T else 4
    R.pmap(work_options, [(d, icvn, nO, f) for d, icvn in ((std, '00401'), (('!', '|', '>'), '00501')) for f in option_segments(d)])
    R.bounds = {'A': 'all bodies of length <= %d over {A,1,ele,sub,seg,LF,CR,SP}, both versions, buffer 8192' % nA,
                'B': 'all bodies <= %d x buffer sizes {1,2,3,5,8} x every read schedule with <= %d short reads (+ one-char and short-by-one schedules)' % (nB, devB),
                'C': '%d delimiter triples x all bodies <= %d x buffer {8192,3}' % (len(triples(T)) - 1, nC),
                'windows': 'every character of 6 tails at every offset -%d..+%d around 106+8192 and 106+2*8192, incl. a segment longer than the buffer; plus segments of 16 264 .. 32 773 characters (longer than two / four buffers)' % (span, span),
                'isa fields': '%d delimiter triples x 2 versions x 14 headers with the component separator inside ISA02/04/06/08/09 x all bodies <= %d (+ the header repeated mid-stream) x {default, buffer 3, one-char reads}' % (len(triples(T)), 3 if T else 2),
                'resume': 'all bodies <= %d x buffer {8192, 3} x every k: the consumer leaves its loop after k segments and iterates the same reader again' % nR,
                'reader options': 'the reader with check_837_lx switched on (as the validator, the context reader and x12metadata do for 837 maps): every sequence of <= %d segments over {CLM, LX*1, LX*2, LX*4, LX*01, LX*A:1, LX, ST, SE}, 2 delimiter triples, buffer {8192, 3}' % nO,
                'source kinds': 'StringIO, open text file, path string (each also with the loop left after 1 / 2 segments and resumed, buffer 3), and StringIO / open file positioned behind a header line or an earlier interchange, on all CR-free bodies <= %d' % (4 if T else 3)}
    R.assumptions = ['blanks and line breaks in front of a segment are dropped in whatever order they come (the two documented normalisations compose); pieces whose leading blanks are followed by TAB / VT / FF, and blank-only pieces, are left open by the statement and are skipped (counted)',
                     'path/file source kinds are compared on CR-free texts only (text mode translates CR)',
                     'short-read menu for reads that could return more than 9 characters is {1,2,half,full-2,full-1}']
    return R.finish(LEVEL, 'bodies x buffer sizes x read schedules; an outcome is (number of reference segments, deviations used)', exhaustive=True,
                    extra={'states': R.total.n, 'transitions': R.total.n, 'traces_validated_against_impl': R.total.n})
