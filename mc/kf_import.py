"""development helper: python -m mc.kf_import C16  -- turn every replay artefact of the last run into a 'known' entry"""
import sys, json, os, glob
V = os.path.dirname(os.path.dirname(os.path.abspath(__file__)))
pid = sys.argv[1]
prefix = sys.argv[2] if len(sys.argv) > 2 else ''
p = os.path.join(V, 'known_findings.json')
d = json.load(open(p))
have = set(k['key'] for k in d['known'])
n = 0
for f in sorted(glob.glob(os.path.join(V, 'replays', pid, '*.json'))):
    a = json.load(open(f))
    if a['key'] in have or not a['key'].startswith(prefix or pid):
        continue
    d['known'].append({'property': pid, 'key': a['key'], 'what': a['message'][:300]})
    have.add(a['key']); n += 1
json.dump(d, open(p, 'w'), indent=1)
print('added', n)
