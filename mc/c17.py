"""
C17 - reference-designator and path addressing is consistent.

(a) E1 with bound = all: the full product grammar of paths (absolute/relative x loop lists x segment id x
    qualifier x element x component) and every string over a small alphabet as the last component, against a
    hand-written recursive-descent parser of the documented grammar (no regex).  The reference sorts every text
    into WELL (parts known), REJECT (the statement demands X12PathError) or OPEN (statement silent: executed,
    outcome recorded, nothing asserted).
(b) every node of every map file that loads: the printed path (get_path(), and the refdes of elements and
    composites) must parse, print and re-parse consistently, and carry the ids the node itself has.
(c) E2: breadth-first search over set/get_value histories on small Segments against a list-of-lists model.
"""
import itertools
from mc import core, bfs

ID = 'C17'
LEVEL = 'model_checking'

UP = 'ABCDEFGHIJKLMNOPQRSTUVWXYZ'
DIG = '0123456789'
LOOPCH = set(UP + DIG + '_')
FIELDS = ('relative', 'loop_list', 'seg_id', 'id_val', 'ele_idx', 'subele_idx')


# ===== reference parser (written from the statement and the module docstring of pyx12/path.py) ================
def _digits(s, i):
    j = i
    while j < len(s) and s[j] in DIG:
        j += 1
    return j


def _is_segid(s):
    return len(s) in (2, 3) and s[0] in UP and all(c in UP + DIG for c in s[1:])


def _refdes_after_seg(s, i):
    """[ '[' qual ']' ] [ DD ] [ '-' D+ ] end   ->  (qual, ele_text, comp_text) or None"""
    qual = ele = comp = None
    if i < len(s) and s[i] == '[':
        j = s.find(']', i)
        if j < 0:
            return None
        qual = s[i + 1:j]
        if qual == '' or not all(c in UP + DIG for c in qual):
            return None
        i = j + 1
    j = _digits(s, i)
    if j - i == 2:
        ele = s[i:j]
        i = j
    elif j != i:
        return None
    if i < len(s) and s[i] == '-':
        j = _digits(s, i + 1)
        if j == i + 1:
            return None
        comp = s[i + 1:j]
        i = j
    if i != len(s):
        return None
    return qual, ele, comp


def parse_last(c):
    """last path component as a reference designator: (seg, qual, ele_text, comp_text) or None.
    Recursive descent with one backtracking point (segment id of 3, 2 or 0 characters); the grammar is
    unambiguous, which is asserted (two successful derivations are a harness error)."""
    found = []
    for n in (3, 2, 0):
        if n and not _is_segid(c[:n]):
            continue
        if len(c) < n:
            continue
        r = _refdes_after_seg(c, n)
        if r is not None and (n or r != (None, None, None)):
            found.append((c[:n] if n else None,) + r)
    if len(found) > 1:
        raise AssertionError('reference grammar ambiguous on %r: %r' % (c, found))
    return found[0] if found else None


def is_loopid(c):
    return c != '' and all(ch in LOOPCH for ch in c)


def classify(text):
    """-> ('well', parts, canonical) | ('reject', why) | ('open', why)
    parts = (relative, [loops], seg, qual, ele, comp); canonical False when the component index is zero padded
    (the value is fixed by the statement, the printed text is not: the suite pins '-1' for X12Path.format and
    '-01' for the sub-element ids printed by the maps)."""
    rel = not text.startswith('/')
    body = text if rel else text[1:]
    if body == '':
        return ('well', (rel, [], None, None, None, None), True)
    comps = body.split('/')
    if comps[-1] == '':
        return ('open', 'trailing-slash')
    if any(c == '' for c in comps):
        return ('open', 'empty-component')
    loops, last = comps[:-1], comps[-1]
    if not all(is_loopid(c) for c in loops):
        return ('open', 'loop-id-charset')
    rd = parse_last(last)
    if rd is None:
        if is_loopid(last):
            return ('well', (rel, loops + [last], None, None, None, None), True)
        return ('open', 'last-component-not-in-grammar')
    seg, qual, ele, comp = rd
    if ele == '00':
        return ('open', 'element-00')
    if comp is not None and int(comp) == 0:
        return ('open', 'component-0')
    if seg is None:
        if qual is not None:
            return ('reject', 'qualifier-without-segment') if loops else ('open', 'bare-qualifier')
        if ele is None:
            return ('open', 'component-only')
        if loops:
            return ('reject', 'index-without-segment')
        if not rel:
            return ('open', 'absolute-bare-index')
        return ('well', (rel, [], None, None, int(ele), int(comp) if comp else None), comp is None or comp[0] != '0')
    if ele is None and comp is not None:
        return ('open', 'component-without-element')
    return ('well', (rel, loops, seg, qual, int(ele) if ele else None, int(comp) if comp else None),
            comp is None or comp[0] != '0')


def flags(text):
    """coarse shape for keys/outcomes: A|R, L (has loops), S Q E C (parts present in the last component)"""
    rel = not text.startswith('/')
    comps = (text if rel else text[1:]).split('/')
    rd = parse_last(comps[-1]) if comps[-1] else None
    f = 'R' if rel else 'A'
    if len(comps) > 1 or (rd is None and comps[-1]):
        f += 'L'
    if rd:
        f += ''.join(k for k, v in zip('SQEC', rd) if v is not None)
    return f


# ===== (a) one text against the real parser =================================================================
def fields(p):
    return (p.relative, list(p.loop_list), p.seg_id, p.id_val, p.ele_idx, p.subele_idx)


def check_text(text, tag='path'):
    """-> (viols, outcome_label, parsed-or-None, classification)"""
    import pyx12.path
    from pyx12.errors import X12PathError
    cl = classify(text)
    fl = flags(text)
    try:
        p = pyx12.path.X12Path(text)
    except X12PathError:
        if cl[0] == 'well':
            return [('C17|%s|well-formed %s|rejected' % (tag, fl[1:].replace('L', '')), 'X12Path(%r) raised X12PathError; the grammar gives parts %r' % (text, cl[1]))], 'well|%s|rejected' % fl, None, cl
        return [], '%s|%s|X12PathError' % (cl[0] if cl[0] != 'open' else 'open:' + cl[1], fl), None, cl
    except Exception as e:
        if cl[0] == 'open':
            return [], 'open:%s|%s|%s' % (cl[1], fl, type(e).__name__), None, cl
        return [('C17|%s|%s|raises %s@%s' % (tag, cl[0], type(e).__name__, core.where(e)), 'X12Path(%r) raised %r' % (text, e))], 'exc', None, cl
    if cl[0] == 'reject':
        return [('C17|%s|%s|not rejected' % (tag, cl[1]), 'X12Path(%r) was accepted (parts %r); the statement demands X12PathError' % (text, fields(p)))], 'reject|accepted', p, cl
    if cl[0] == 'open':
        return [], 'open:%s|%s|accepted' % (cl[1], fl), p, cl
    want, canonical = cl[1], cl[2]
    got = fields(p)
    for name, g, w in zip(FIELDS, got, want):
        if g != w or type(g) is not type(w):
            return [('C17|%s|well-formed|%s differs' % (tag, name), 'X12Path(%r).%s = %r, the grammar says %r' % (text, name, g, w))], 'well|field', p, cl
    try:
        out = p.format()
        q = pyx12.path.X12Path(out)
        eq, ne = (p == q), (p != q)
    except Exception as e:
        return [('C17|%s|well-formed|print/re-parse raises %s@%s' % (tag, type(e).__name__, core.where(e)), 'format/re-parse of X12Path(%r) raised %r' % (text, e))], 'well|exc', p, cl
    if canonical and out != text:
        return [('C17|%s|well-formed|print differs' % tag, 'X12Path(%r).format() = %r' % (text, out))], 'well|print', p, cl
    if eq is not True or ne is not False:
        return [('C17|%s|well-formed|re-parse unequal' % tag, 'X12Path(%r).format() = %r parses to %r, not equal to %r' % (text, out, fields(q), got))], 'well|reparse', p, cl
    # equality is a property of the parts: it must not depend on what one of the two objects has been used for before
    # (hashed - as NodeCounter and sets do -, printed, shown, tested for emptiness), nor on the side it stands on
    for uname, use in USES:
        try:
            a = pyx12.path.X12Path(text); b = pyx12.path.X12Path(out)
            use(a)
            r = (a == b, b == a, a != b, b != a)
            use(b)
            same_hash = hash(a) == hash(b)
            member = a in {b}
        except Exception as e:
            return [('C17|%s|well-formed|use %s raises %s@%s' % (tag, uname, type(e).__name__, core.where(e)), 'X12Path(%r) after %s raised %r' % (text, uname, e))], 'well|exc', p, cl
        if r != (True, True, False, False) or not same_hash or not member:
            return [('C17|%s|well-formed|equality depends on earlier use (%s)' % (tag, uname),
                     'a = X12Path(%r), b = X12Path(%r); after %s(a): a==b %r, b==a %r, a!=b %r, b!=a %r; after %s(b): equal hashes %r, a in {b} %r'
                     % (text, out, uname, r[0], r[1], r[2], r[3], uname, same_hash, member))], 'well|use', p, cl
    return [], 'well|%s|%s' % (fl, 'ok' if canonical else 'ok-padded-component'), p, cl


USES = [('hash', hash), ('format', lambda x: x.format()), ('repr', repr), ('empty', lambda x: x.empty())]


def check_pair(t1, t2):
    """equality must be exactly equality of parts (both well-formed)"""
    import pyx12.path
    c1, c2 = classify(t1), classify(t2)
    if c1[0] != 'well' or c2[0] != 'well':
        return []
    try:
        p1, p2 = pyx12.path.X12Path(t1), pyx12.path.X12Path(t2)
        eq, ne = (p1 == p2), (p1 != p2)
    except Exception:
        return []      # reported by check_text
    want = c1[1] == c2[1]
    if eq is not want or ne is not (not want):
        return [('C17|path|equality|%s' % ('distinct paths equal' if not want else 'same parts unequal'),
                 'X12Path(%r) == X12Path(%r) is %r (!= is %r); parts %r vs %r' % (t1, t2, eq, ne, c1[1], c2[1]))]
    return []


# ----- spaces ------------------------------------------------------------------------------------------------
def dims(thorough):
    if thorough:
        return {'loops': ['2000A', '2300', 'ISA_LOOP', 'HEADER', 'AK2'], 'depth': 4,
                'seg': [None, 'N3', 'NM1', 'HL', 'A1', 'B2B', 'ISA', 'K3', 'Z99'],
                'qual': [None, '85', '1C', 'XX1', 'A', '0', '123456'],
                'ele': [None, '00', '01', '02', '09', '10', '11', '99'],
                'comp': [None, '0', '1', '2', '9', '10', '12', '100', '01', '007']}
    return {'loops': ['2000A', '2300', 'ISA_LOOP', 'HEADER'], 'depth': 3,
            'seg': [None, 'N3', 'NM1', 'HL', 'A1', 'B2B'],
            'qual': [None, '85', '1C', 'XX1'],
            'ele': [None, '00', '01', '02', '10', '99'],
            'comp': [None, '0', '1', '2', '12', '01']}


ILL = ['n1', 'N', 'N01', 'N1001', 'NM1001', 'N1[85', 'N185]', 'N1[]01', 'N1[8 5]01', 'N1[ab]01', 'N1 01', 'N101-', 'N101-a', 'N101--1',
       'N101-1-1', 'N10101', 'N1[85][86]01', '[85]', '[85]01', '[85]01-1', '-1', '-01', '01-', '1', '001', '0101', 'NM1[85]1', 'NM1011',
       '2N1', '_N1', 'N_1', 'N1\n', '\nN1', 'N101\n', ' N101', 'N101 ', 'ÀB01', 'N1٠١', 'NM1[٨٥]01', 'N1[85]٠١', 'N101-١', '']
RAWCTX = ['', '/', '2300/', '/2000A/2300/']


def raw_alpha(thorough):
    return (['N', 'A', '1', '0', '[', ']', '-', 'a'], 6) if thorough else (['N', '1', '0', '[', ']', '-'], 6)


def last_components(D):
    for seg, qual, ele, comp in itertools.product(D['seg'], D['qual'], D['ele'], D['comp']):
        yield (seg or '') + ('[%s]' % qual if qual else '') + (ele or '') + ('-' + comp if comp else '')


def pair_catalogue():
    cat = ['', '/', '2300', '/2300', '2000A/2300', '/2000A/2300', '2300/2000A', 'N1', '/N1', 'NM1', '2300/N1', '/2300/N1', '/2000A/N1',
           '/2000A/2300/N1', 'N1[85]', 'N1[1C]', '/2300/N1[85]', 'N101', 'N102', 'N1[85]01', 'N1[85]02', 'N1[1C]01', 'N101-1', 'N101-2',
           'N101-01', 'N101-12', 'N102-1', 'N1[85]01-1', '01', '02', '01-1', '01-2', '01-01', '10', '10-1', '/2300/N101', '/2300/N101-1',
           '2300/N101-1', '/2300/N1[85]01-1', '/2300/NM101', 'NM101', 'N10', 'N1001', 'AK2', '/HEADER/AK2', '/HEADER/AK2/AK2', 'HEADER']
    return cat


def shards_a(R):
    D = dims(R.thorough)
    sh = []
    for rel in (True, False):
        for n in range(D['depth'] + 1):
            if n <= 1:
                sh.append(('prod', rel, n, None))
            else:
                for first in D['loops']:
                    sh.append(('prod', rel, n, first))
    alpha, n = raw_alpha(R.thorough)
    for ctx in RAWCTX:
        sh.append(('raw', ctx, None, None))
        for a in alpha:
            for b in alpha:
                sh.append(('raw', ctx, a + b, None))
    sh.append(('ill', None, None, None))
    sh.append(('pairs', None, None, None))
    return sh


def gen_a(shard, thorough):
    kind = shard[0]
    D = dims(thorough)
    if kind == 'prod':
        _, rel, n, first = shard
        lasts = list(last_components(D))
        rest = n - (1 if first else 0)
        for tup in itertools.product(D['loops'], repeat=rest):
            ll = ([first] if first else []) + list(tup)
            pre = ('' if rel else '/') + ''.join(l + '/' for l in ll)
            for last in lasts:
                if last == '':
                    yield pre[:-1] if ll else pre      # loops only (no trailing slash); '' and '/'
                else:
                    yield pre + last
    elif kind == 'raw':
        _, ctx, pre, _ = shard
        alpha, n = raw_alpha(thorough)
        if pre is None:
            for s in alpha:
                yield ctx + s
        else:
            for k in range(0, n - 1):
                for tup in itertools.product(alpha, repeat=k):
                    yield ctx + pre + ''.join(tup)
    elif kind == 'ill':
        for ctx in RAWCTX + ['/2300//', '2300//', '//']:
            for s in ILL:
                yield ctx + s
        for l in ('2300', 'N1', 'n1', '2300 ', '23[00'):
            for tail in ('/', '//', '/N101/', '/N101/2300', '/01/N1', '/[85]/N1'):
                yield l + tail
                yield '/' + l + tail


def work_a(shard):
    thorough = shard[-1]
    shard = shard[:-1]
    P = core.Part()
    if shard[0] == 'pairs':
        cat = pair_catalogue()
        for t1 in cat:
            for t2 in cat:
                P.n += 1
                for k, m in check_pair(t1, t2):
                    P.bad(k, {'part': 'a', 'text': t1, 'other': t2}, m)
        P.out('pairs')
        return P
    prev = None
    for text in gen_a(shard, thorough):
        P.n += 1
        viols, outcome, p, cl = check_text(text)
        P.out(outcome)
        P.counters['a_' + cl[0]] += 1
        if cl[0] == 'open':
            P.counters['a_open_' + cl[1]] += 1
        for k, m in viols:
            P.bad(k, {'part': 'a', 'text': text}, m)
        if cl[0] == 'well' and not viols:
            if prev is not None and prev != text:
                for k, m in check_pair(prev, text):
                    P.bad(k, {'part': 'a', 'text': prev, 'other': text}, m)
            prev = text
            if P.n % 20000 == 7:
                P.sample({'text': text, 'parts': list(cl[1])}, cap=1)
    return P


# ===== (b) printed paths of map nodes =========================================================================
def map_nodes(m):
    """deterministic walk of every node: loops, segments, elements, composites, sub-elements"""
    out = []

    def rec(n):
        out.append(n)
        if hasattr(n, 'pos_map'):
            for k in sorted(n.pos_map):
                for c in n.pos_map[k]:
                    rec(c)
        else:
            for c in getattr(n, 'children', None) or []:
                rec(c)
    rec(m)
    return out


def node_expect(n):
    """(kind, loops, seg, ele, comp) read off the node objects themselves (ids/seq of the node and its ancestors)"""
    kind = n.base_name
    anc = []
    p = n.parent
    seg = None
    chain = []
    while p is not None and p.base_name != 'map':
        chain.append(p)
        p = p.parent
    for a in chain:
        if a.base_name == 'loop':
            anc.insert(0, a.id)
        elif a.base_name == 'segment':
            seg = a.id
    if kind == 'loop':
        return kind, anc + [n.id], None, None, None
    if kind == 'segment':
        return kind, anc, n.id, None, None
    if kind == 'composite':
        return kind, anc, seg, n.seq, None
    if kind == 'element':
        if n.parent.base_name == 'composite':
            return 'subelement', anc, seg, n.parent.seq, n.seq
        return kind, anc, seg, n.seq, None
    return kind, anc, None, None, None


def check_node(n):
    """-> (viols, outcome, counters)"""
    import pyx12.path
    cnt = []
    kind, loops, seg, ele, comp = node_expect(n)
    tag = 'map-path|' + kind
    try:
        text = n.get_path()
    except Exception as e:
        return [('C17|%s|get_path raises %s@%s' % (tag, type(e).__name__, core.where(e)), '%s node %r: get_path() raised %r' % (kind, n.id, e))], 'b|exc', cnt
    viols, outcome, p, cl = check_text(text, tag)
    if viols:
        return viols, 'b|' + kind + '|' + outcome, cnt
    if p is None:
        return [('C17|%s|printed path rejected' % tag, '%s node prints %r which X12Path rejects' % (kind, text))], 'b|rejected', cnt
    if cl[0] != 'well':
        # outside the documented grammar: the statement still demands the round trip for printed node paths
        cnt.append('b_printed_path_outside_grammar')
        try:
            out = p.format()
            q = pyx12.path.X12Path(out)
            same = (q == p) is True
        except Exception as e:
            return [('C17|%s|print/re-parse raises %s@%s' % (tag, type(e).__name__, core.where(e)), 'node path %r: %r' % (text, e))], 'b|exc', cnt
        if out != text or not same:
            return [('C17|%s|%s|does not round-trip' % (tag, cl[1]),
                     '%s node prints %r; X12Path parses it to %r, prints %r, which parses to %r' % (kind, text, fields(p), out, fields(q)))], 'b|' + kind + '|noroundtrip', cnt
    # the parts the node itself stands for
    got = fields(p)
    if kind == 'loop' and _is_segid(n.id):
        cnt.append('b_loop_id_reads_as_segment_id')       # documented: "the last loop id might be a segment id"
        want_l, want_s = loops[:-1], n.id
    else:
        want_l, want_s = loops, seg
    if kind != 'composite' or cl[0] == 'well':
        if got[1] != want_l or got[2] != want_s or got[4] != ele or got[5] != comp or got[0] is not False:
            return [('C17|%s|parts differ from the node' % tag, '%s node %r prints %r -> %r; node says loops %r seg %r ele %r comp %r'
                     % (kind, n.id, text, got, want_l, want_s, ele, comp))], 'b|' + kind + '|node-mismatch', cnt
    try:
        xp = n.x12path
        if (xp == p) is not True:
            return [('C17|%s|x12path property differs' % tag, 'node.x12path %r vs X12Path(get_path()) %r' % (fields(xp), got))], 'b|x12path', cnt
    except Exception as e:
        return [('C17|%s|x12path raises %s@%s' % (tag, type(e).__name__, core.where(e)), 'node %r: %r' % (text, e))], 'b|exc', cnt
    # reference designator of elements / composites (a bare designator)
    if kind in ('element', 'subelement', 'composite'):
        rd = getattr(n, 'refdes', None)
        if rd is None:
            cnt.append('b_no_refdes')
        else:
            v2, o2, p2, cl2 = check_text(rd, 'map-refdes|' + kind)
            if v2:
                return v2, 'b|refdes|' + o2, cnt
            if p2 is None or cl2[0] != 'well':
                return [('C17|map-refdes|%s|not a designator' % kind, 'node %r has refdes %r (%s)' % (text, rd, cl2[1]))], 'b|refdes-open', cnt
            g2 = fields(p2)
            if g2[0] is not True or g2[1] != [] or g2[2] != seg or g2[4] != ele or g2[5] != comp:
                return [('C17|map-refdes|%s|parts differ from the node' % kind, 'node %r refdes %r -> %r; node says seg %r ele %r comp %r'
                         % (text, rd, g2, seg, ele, comp))], 'b|refdes-mismatch', cnt
    return [], 'b|%s|%s' % (kind, outcome), cnt


def load(fname):
    from mc import impl
    return impl.load_map(fname)


def work_b(fname):
    P = core.Part()
    try:
        m = load(fname)
    except Exception as e:
        P.counters['b_maps_not_loaded'] += 1
        P.out('b|map-load-fails|%s' % type(e).__name__)
        return P
    P.counters['b_maps_loaded'] += 1
    for idx, n in enumerate(map_nodes(m)):
        P.n += 1
        viols, outcome, cnt = check_node(n)
        P.out(outcome)
        P.counters['b_' + node_expect(n)[0]] += 1
        for c in cnt:
            P.counters[c] += 1
        for k, msg in viols:
            P.bad(k, {'part': 'b', 'map': fname, 'node': idx}, msg)
        if idx == 400:
            P.sample({'map': fname, 'node': idx, 'path': n.get_path()}, cap=1)
    return P


def map_files():
    from mc import grammar
    import os
    fs = grammar.map_files()
    extra = [f for f in sorted(os.listdir(grammar.MAPDIR)) if f.startswith('x12.control.') and f.endswith('.xml')]
    return fs + extra          # comp_test.xml is a unit-test fixture (sub-elements without ids), not a shipped map


# ===== (c) set/get histories on a Segment =====================================================================
ISA = 'ISA*00*          *00*          *ZZ*ZZ000          *ZZ*ZZ001          *030828*1128*U*00401*000010121*0*T*:'
INITS = ['SEG', 'SEG*X', 'SEG*X*Y:Z', ISA]
GRID_E, GRID_C = 5, 4


def alphabet_c(sid, thorough):
    # sid[1:] / sid[:2]: ids of OTHER segments that are part of this one's id (K3 in AK3, N1 in CN1, ST in STC ...)
    des = ['01', '02', '03', '02-1', '02-2', '03-2', sid + '01', sid + '02-2', 'OTH01', sid, sid[1:] + '01', sid[:2] + '02-1']
    if thorough:
        des += ['04-3', sid + '03', 'OTH02-1', 'OT01']
    if sid == 'ISA':
        des += ['16', 'ISA16', '17'] if thorough else ['ISA16']
    evs = []
    for r in des:
        evs.append(('get', r))
        for v in ('', 'A', 'B', ' '):          # ' ': a blank value is a value (not an empty position)
            evs.append(('set', r, v))
    if sid == 'ISA':
        # the ISA carries the delimiters as DATA (ISA11, ISA16): a program that re-delimits an interchange writes the
        # segment object's own element / component separator into them
        for r in (['ISA16', '11'] + (['16', 'ISA11'] if thorough else [])):
            for v in ('*', ':'):
                evs.append(('set', r, v))
    return evs


def model_init(text):
    parts = text.split('*')
    if parts[0] == 'ISA':
        return [[e] for e in parts[1:]]
    return [e.split(':') for e in parts[1:]]


def refdes_parts(r):
    """reference reading of a designator -> (seg or None, ele or None, comp or None)"""
    rd = parse_last(r)
    if rd is None or rd[1] is not None:
        raise AssertionError('designator %r not in the alphabet grammar' % r)
    return rd[0], (int(rd[2]) if rd[2] else None), (int(rd[3]) if rd[3] else None)


def wire(comps):
    """X12 value of an element: components joined, trailing empty components dropped (suite: get_value('04') == 'BB:5')"""
    k = len(comps)
    while k > 1 and comps[k - 1] == '':
        k -= 1
    return ':'.join(comps[:k])


def model_get(M, e, c):
    if e > len(M):
        return None
    if c is None:
        return wire(M[e - 1])
    if c > len(M[e - 1]):
        return None
    return M[e - 1][c - 1]


def model_set(M, e, c, v):
    M = [list(x) for x in M]
    while len(M) < e:
        M.append([''])
    if c is None:
        M[e - 1] = [v]
    else:
        while len(M[e - 1]) < c:
            M[e - 1].append('')
        M[e - 1][c - 1] = v
    return M


def observe(seg, sid, ne):
    """every position of the grid through the public read seam"""
    obs = {}
    for e in range(1, ne + 1):
        obs[(e, None)] = seg.get_value('%02d' % e)
        for c in range(1, GRID_C + 1):
            obs[(e, c)] = seg.get_value('%s%02d-%d' % (sid if (e + c) % 2 else '', e, c))
    return obs


def run_hist(hist):
    """replays hist on a fresh Segment and on the model; checks the LAST event.  -> (key or None, viols, outcome)"""
    import pyx12.segment
    from pyx12.errors import EngineError
    init = INITS[hist[0][1]]
    sid = init.split('*')[0]
    isa = sid == 'ISA'
    ne = 18 if isa else GRID_E
    # prelude: every designator of the alphabet that names ANOTHER segment is first used, legitimately, on a segment of
    # that id in the same process -- what is refused must not depend on what was addressed before
    for otxt, des in (('OTH*P*Q:R~', ('OTH01', 'OTH02-1')), ('OT*P~', ('OT01',)), (sid[1:] + '*P~', (sid[1:] + '01',)), (sid[:2] + '*P*Q:R~', (sid[:2] + '02-1',))):
        o = pyx12.segment.Segment(otxt, '~', '*', ':')
        for r in des:
            o.get_value(r)
            o.set(r, 'Z')
    seg = pyx12.segment.Segment(init + '~', '~', '*', ':')
    M = model_init(init)
    viols = []
    outcome = None
    for step, ev in enumerate(hist):
        last = step == len(hist) - 1
        if ev[0] == 'init':
            op = 'init'
            exp_exc = None
            got_exc = None
            ret = want_ret = None
            M2 = M
        else:
            r = ev[1]
            rs, re_, rc = refdes_parts(r)
            foreign = rs is not None and rs != sid
            noindex = re_ is None
            op = ev[0]
            got_exc = None
            ret = None
            try:
                if op == 'get':
                    ret = seg.get_value(r)
                else:
                    ret = seg.set(r, ev[2])
            except Exception as e:
                got_exc = e
            M2 = M
            want_ret = None
            if foreign:
                exp_exc = 'EngineError'
            elif noindex:
                exp_exc = 'open'          # a designator without an element index is not an element/component designator
            else:
                exp_exc = None
                if op == 'get':
                    want_ret = model_get(M, re_, rc)
                else:
                    M2 = model_set(M, re_, rc, ev[2])
        if last:
            kind = ('foreign' if ev[0] != 'init' and foreign else 'no-index' if ev[0] != 'init' and noindex else
                    ('component' if ev[0] != 'init' and rc else 'element'))
            tag = '%s|%s|%s' % ('isa' if isa else 'seg', op, kind)
            if exp_exc == 'EngineError':
                if got_exc is None:
                    viols.append(('C17|segment|%s|not refused' % tag, '%s(%r) on %r was accepted' % (op, ev[1], sid)))
                elif not isinstance(got_exc, EngineError):
                    viols.append(('C17|segment|%s|raises %s@%s' % (tag, type(got_exc).__name__, core.where(got_exc)),
                                  '%s(%r) on %r raised %r, EngineError expected' % (op, ev[1], sid, got_exc)))
                outcome = tag + '|refused'
            elif exp_exc == 'open':
                # statement silent: outcome recorded, nothing asserted, the history is not extended
                return None, [], tag + '|open|' + (type(got_exc).__name__ if got_exc else 'accepted')
            else:
                if got_exc is not None:
                    viols.append(('C17|segment|%s|raises %s@%s' % (tag, type(got_exc).__name__, core.where(got_exc)),
                                  'history %r: %s raised %r' % (hist, op, got_exc)))
                    return None, viols, tag + '|exc'
                multi = op == 'get' and rc is None and re_ <= len(M) and len(M[re_ - 1]) > 1
                if op == 'get' and isa and multi:
                    outcome = tag + '|open-isa-composite-value'
                elif op == 'get' and ret != want_ret:
                    viols.append(('C17|segment|%s|wrong value' % tag, 'history %r: get_value(%r) = %r, model %r says %r' % (hist, ev[1], ret, M, want_ret)))
                else:
                    outcome = tag + '|' + ('none' if (op == 'get' and ret is None) else 'pad' if (op == 'set' and len(M2) > len(M)) else 'ok')
            # state after the event = model after the event, position by position (read-after-write, padding, frame)
            if True:
                try:
                    obs = observe(seg, sid, ne)
                    n = len(seg)
                except Exception as e:
                    viols.append(('C17|segment|%s|observation raises %s@%s' % (tag, type(e).__name__, core.where(e)), 'history %r: %r' % (hist, e)))
                    return None, viols, tag + '|exc'
                Mx = M2
                if n != len(Mx):
                    viols.append(('C17|segment|%s|length' % tag, 'history %r: len(segment) = %d, model %r' % (hist, n, Mx)))
                for (e, c), got in sorted(obs.items(), key=lambda kv: (kv[0][0], kv[0][1] or 0)):
                    if c is None and isa and e <= len(Mx) and len(Mx[e - 1]) > 1:
                        continue
                    want = model_get(Mx, e, c)
                    if got != want:
                        what = 'read-after-write' if (ev[0] == 'set' and not foreign and not noindex and (e, c) == (re_, rc)) else \
                               'frame' if ev[0] != 'init' else 'initial'
                        viols.append(('C17|segment|%s|%s' % (tag, what), 'history %r: position %02d%s reads %r, model %r says %r'
                                      % (hist, e, '-%d' % c if c else '', got, Mx, want)))
                        break
        M = M2
    if viols:
        return None, viols, outcome or 'viol'
    proj = (seg.seg_id, tuple(tuple(x.value for x in comp.elements) for comp in seg.elements),
            tuple(comp.subele_term for comp in seg.elements), seg.seg_term, seg.ele_term, seg.subele_term)
    key = (hist[0][1], proj, tuple(tuple(x) for x in M))
    return key, [], outcome


THOROUGH_C = False


def expand_c(hist):
    sid = INITS[hist[0][1]].split('*')[0]
    out = []
    for ev in alphabet_c(sid, THOROUGH_C):
        key, viols, outcome = run_hist(hist + [ev])
        out.append((ev, key, viols, outcome))
    return out


# ===== replay =================================================================================================
def evaluate(case):
    if 'hist' in case:
        hist = [tuple(e) for e in case['hist']]
        return run_hist(hist)[1]
    if case.get('part') == 'a':
        if 'other' in case:
            return check_pair(case['text'], case['other'])
        return check_text(case['text'])[0]
    if case.get('part') == 'b':
        m = load(case['map'])
        return check_node(map_nodes(m)[case['node']])[0]
    raise ValueError('unknown case %r' % (case,))


# ===== driver =================================================================================================
def run(R):
    global THOROUGH_C
    THOROUGH_C = R.thorough
    D = dims(R.thorough)
    alpha, n = raw_alpha(R.thorough)
    # initial states of (c) are checked too (history of length 1)
    for i in range(len(INITS)):
        key, viols, _ = run_hist([('init', i)])
        for k, m in viols:
            R.total.bad(k, {'hist': [('init', i)], 'label': 'segment'}, m)
    R.pmap(work_a, [s + (R.thorough,) for s in shards_a(R)], chunksize=4)
    files = map_files()
    R.pmap(work_b, files)
    depth = 5 if R.thorough else 4
    s = bfs.search(R, expand_c, [[('init', i)] for i in range(len(INITS))], depth, 'segment', max_states=2000000)
    R.cov['searches'] = [s]
    R.bounds = {
        'a_product': 'abs/rel x loop lists of length <= %d over %r x seg %r x qualifier %r x element %r x component %r'
                     % (D['depth'], D['loops'], D['seg'], D['qual'], D['ele'], D['comp']),
        'a_raw': 'every string of length <= %d over %r as the last component after each of %r' % (n, alpha, RAWCTX),
        'a_ill': '%d hand-listed ill-formed last components x %d contexts; all ordered pairs of a %d-path catalogue for ==/!='
                 % (len(ILL), len(RAWCTX) + 3, len(pair_catalogue())),
        'b': 'every loop, segment, element, composite and sub-element node of %d map files (get_path, x12path, refdes)' % len(files),
        'c': 'initial segments %r; events get_value(r)/set(r,v), v in {"",A,B}, %d designators (+ISA16 on ISA); all histories of length <= %d merged on (segment contents, model)'
             % ([x[:12] for x in INITS], len(alphabet_c('SEG', R.thorough)) // 4, depth),
    }
    R.assumptions = [
        'loop ids are non-empty strings over [A-Z0-9_]; segment ids are a letter followed by 1-2 letters/digits; qualifiers are non-empty [A-Z0-9]+ (other spellings are executed but not judged)',
        'open (executed, not judged): element index 00, component index 0, trailing slash, empty components, a component index without an element index, a qualifier or bare index with neither segment id nor loop ids, /NN',
        'a zero-padded component index (-01) must parse to the value and re-parse equal after printing, but the printed text is not compared (suite pins format() "-1" and sub-element ids "-01")',
        'a loop whose id has the shape of a segment id (997: AK2, AK3...) may read back as seg_id (documented in path.py)',
        'Segment: values are "", A, B and a single blank (no separators, no None); get_value of a missing position is None and of a multi-component element is the joined wire value (suite); whole-element reads of multi-component ISA elements and designators without an element index are not judged',
    ]
    return R.finish(LEVEL, 'complete enumeration of the bounded path language + every map node + BFS over set/get histories; an outcome is distinct by (class, shape of the path, result) / (segment kind, operation, designator kind, result)',
                    exhaustive=True)
