"""
C19 - the HTML report is a complete document that lists every source segment once, in order, with its
line number and all its element values, shows the message of every segment-level and element-level
error next to the segment it was reported for, and escapes every character that came from the input.

Exhaustive over described corpora (no sampling):
  * the shared pipeline corpora (conformant documents of every map, one document per C03 fault kind per
    map, interchange x group x set shapes, the suite's own sources, all single structural mutations of
    a few base documents), and
  * 'payload' documents: markup-bearing payloads placed in (a) valid free-text AN elements, (b) rejected
    elements (too long / in a coded element / as a component / as control numbers / as a segment id) so
    that they are echoed inside error messages, one and many per segment, under several delimiter sets
    including delimiters that are themselves HTML-special.

Oracle (written from the statement; the message *text* is never interpreted, only compared as data):
  1. html.parser.HTMLParser (convert_charrefs off) turns the report into a markup event list with
     offsets; a small grammar written from the template in pyx12/error_html.py accepts exactly:
     html/head(title, style, link)/body(h1, h3, p, div.segs(lines), p(a)) with every line being
     span.{seg|error|info} + br, span.ele_err only inside span.seg, nothing nested in error/info
     spans, no comment / declaration / processing instruction, and only whitelisted (tag, attributes).
  2. the raw text between markup is tokenised strictly: only &nbsp; &amp; &lt; &gt; are entities.
     The unescaped texts of the span.seg lines equal '<line>: <segment>' for every token of the
     reference tokenizer (mc.ref.tokenize), once, in order, in the original delimiters (modulo the
     documented dropping of trailing empty elements / components), and every < > & inside them (segment
     id, element values, delimiters - all of it input) is written as an entity.
  3. for every segment-level and element-level error of every segment node of the error tree (read
     through the public visitor protocol, with its message), some span.error in the run of lines
     directly before or directly after the span.seg carrying that node's line number contains the
     message after unescaping, and the echoed offending value inside it has its < > & escaped.
     Element errors of header/trailer segments (they hang on the ISA/GS/ST node) must be shown
     somewhere; set/group/interchange-level errors are outside the statement.
"""
from html.parser import HTMLParser
from mc import core, corpus, ref, gen, c05

ID = 'C19'
LEVEL = 'exploration'

# ---------------------------------------------------------------------------------------------------
# what the template emits (read off pyx12/error_html.py: header, footer, gen_info, gen_seg, _wrap_ele_error)
# ---------------------------------------------------------------------------------------------------
START = {
    ('html', ()), ('head', ()), ('title', ()), ('style', (('type', 'text/css'),)), ('body', ()),
    ('h1', ()), ('h3', ()), ('p', ()), ('div', (('class', 'segs'), ('style', ''))),
    ('span', (('class', 'seg'),)), ('span', (('class', 'error'),)), ('span', (('class', 'info'),)),
    ('span', (('class', 'ele_err'),)), ('a', (('href', 'http://sourceforge.net/projects/pyx12/'),)),
}
EMPTY = {('link', (('rel', 'stylesheet'), ('href', 'errors.css'), ('type', 'text/css'))), ('br', ())}
ENT = (('&nbsp;', ' '), ('&amp;', '&'), ('&lt;', '<'), ('&gt;', '>'))
SPECIAL = '<>&'


class Reader(HTMLParser):
    """markup events with absolute offsets: (kind, tag, attrs, start, end)"""

    def __init__(self, text):
        HTMLParser.__init__(self, convert_charrefs=False)
        self.text = text
        self.ev = []
        self.ls = [0]
        for i, c in enumerate(text):
            if c == '\n':
                self.ls.append(i + 1)
        self.feed(text)
        self.close()

    def off(self):
        l, c = self.getpos()
        return self.ls[l - 1] + c

    def handle_starttag(self, tag, attrs):
        s = self.off()
        self.ev.append(('S', tag, tuple((k, v) for k, v in attrs), s, s + len(self.get_starttag_text())))

    def handle_startendtag(self, tag, attrs):
        s = self.off()
        self.ev.append(('V', tag, tuple((k, v) for k, v in attrs), s, s + len(self.get_starttag_text())))

    def handle_endtag(self, tag):
        s = self.off()
        e = self.text.find('>', s)
        self.ev.append(('E', tag, (), s, (e + 1) if e >= 0 else len(self.text)))

    def _other(self, kind, data):
        s = self.off()
        e = self.text.find('>', s)
        self.ev.append(('X', kind, (), s, (e + 1) if e >= 0 else len(self.text)))

    def handle_comment(self, data): self._other('comment', data)
    def handle_decl(self, data): self._other('declaration', data)
    def handle_pi(self, data): self._other('processing instruction', data)
    def unknown_decl(self, data): self._other('marked section', data)


def units(raw):
    """strict text tokenizer -> list of (character, written as an entity?)"""
    out = []
    i = 0
    n = len(raw)
    while i < n:
        c = raw[i]
        if c == '&':
            for k, v in ENT:
                if raw.startswith(k, i):
                    out.append((v, True)); i += len(k)
                    break
            else:
                out.append(('&', False)); i += 1
        else:
            out.append((c, False)); i += 1
    return out


def align(raw, want):
    """match the raw text of a line against the characters of `want`, each of which may be written raw
    or as its entity (blank also as &nbsp;) -> list of flags 'written as an entity' per character, or None.
    Backtracks over the only ambiguity there is (an '&' that may or may not start an entity)."""
    esc = {' ': '&nbsp;', '&': '&amp;', '<': '&lt;', '>': '&gt;'}
    n = len(want)
    flags = [None] * n
    # iterative depth-first search; alternatives exist only at special characters
    alt = []
    i = j = 0
    while True:
        if i == n:
            if j == len(raw):
                return flags
        else:
            c = want[i]
            e = esc.get(c)
            if e is not None and raw.startswith(e, j):
                if raw.startswith(c, j):
                    alt.append((i, j))          # the raw reading remains possible
                flags[i] = True; i += 1; j += len(e)
                continue
            if raw.startswith(c, j):
                flags[i] = False; i += 1; j += 1
                continue
        if not alt:
            return None
        i, j = alt.pop()
        flags[i] = False; i += 1; j += 1


class Broken(Exception):
    def __init__(self, ctx, what):
        Exception.__init__(self, what)
        self.ctx = ctx; self.what = what; self.lines = []


def read_report(html):
    """-> list of lines (cls, raw text, offset); raises Broken(context, what) when the document is not of
    the template's shape (Broken.lines = the lines read before that point)"""
    lines = []
    try:
        _read_report(html, lines)
    except Broken as b:
        b.lines = lines
        raise
    return lines


def _read_report(html, lines):
    rd = Reader(html)
    ev = rd.ev
    pos = [0]        # index of next event
    last_end = [0]

    def gap():
        """raw text between the previous markup item and the next"""
        nxt = ev[pos[0]][3] if pos[0] < len(ev) else len(html)
        return html[last_end[0]:nxt]

    def desc(e):
        if e is None:
            return 'end of document'
        return {'S': '<%s>', 'V': '<%s/>', 'E': '</%s>', 'X': '%s'}[e[0]] % e[1] + ' at offset %d: %r' % (e[3], html[e[3]:e[4]][:50])

    def take(ctx, kind, tag, blank_before=True, cls=None):
        g = gap()
        e = ev[pos[0]] if pos[0] < len(ev) else None
        if e is None or e[0] != kind or e[1] != tag or (cls is not None and e[2] != (('class', cls),)):
            raise Broken(ctx, 'expected %s%s, found %s' % ({'S': '<%s>', 'V': '<%s/>', 'E': '</%s>'}[kind] % tag, ' class=' + cls if cls else '', desc(e)))
        if kind == 'S' and (e[1], e[2]) not in START or kind == 'V' and (e[1], e[2]) not in EMPTY:
            raise Broken(ctx, 'tag/attributes the template does not emit: %s' % desc(e))
        if blank_before and g.strip() != '':
            raise Broken(ctx, 'text %r where the template has none, before %s' % (g[:50], desc(e)))
        pos[0] += 1
        last_end[0] = e[4]
        return g

    for (k, t) in (('S', 'html'), ('S', 'head'), ('S', 'title')):
        take('prolog', k, t)
    take('prolog', 'E', 'title', False)
    take('prolog', 'S', 'style')
    take('prolog', 'E', 'style', False)
    take('prolog', 'V', 'link'); take('prolog', 'E', 'head'); take('prolog', 'S', 'body'); take('prolog', 'S', 'h1')
    take('prolog', 'E', 'h1', False); take('prolog', 'S', 'h3'); take('prolog', 'E', 'h3', False)
    take('prolog', 'S', 'p'); take('prolog', 'S', 'div')
    ctx = 'div.segs'
    while True:
        e = ev[pos[0]] if pos[0] < len(ev) else None
        if e is not None and e[0] == 'E' and e[1] == 'div':
            take(ctx, 'E', 'div')
            break
        if e is None or e[0] != 'S' or e[1] != 'span' or e[2] not in ((('class', 'seg'),), (('class', 'error'),), (('class', 'info'),)):
            raise Broken(ctx, 'expected a span.seg/error/info line or </div>, found %s' % desc(e))
        cls = e[2][0][1]
        take(ctx, 'S', 'span')
        ctx = 'span.' + cls
        start = e[3]
        raw = []
        while True:
            raw.append(gap())
            e = ev[pos[0]] if pos[0] < len(ev) else None
            if e is not None and e[0] == 'E' and e[1] == 'span':
                take(ctx, 'E', 'span', False)
                break
            if cls == 'seg' and e is not None and e[0] == 'S' and e[1] == 'span' and e[2] == (('class', 'ele_err'),):
                take(ctx, 'S', 'span', False)
                raw.append(take(ctx, 'E', 'span', False))
                continue
            raise Broken(ctx, 'markup inside the line: %s' % desc(e))
        lines.append((cls, ''.join(raw), start))
        take(ctx + ' (line end)', 'V', 'br')
        ctx = 'div.segs (after a span.%s line)' % cls
    take('epilog', 'S', 'p'); take('epilog', 'S', 'a'); take('epilog', 'E', 'a', False); take('epilog', 'E', 'p')
    take('epilog', 'E', 'body'); take('epilog', 'E', 'html')
    if pos[0] < len(ev) or html[last_end[0]:].strip() != '':
        raise Broken('epilog', 'content after </html>: %r' % html[last_end[0]:][:60])


# ---------------------------------------------------------------------------------------------------
# the error tree with messages (own visitor; pipe.TreeReader keeps codes and values only)
# ---------------------------------------------------------------------------------------------------
def msg_reader():
    import pyx12.error_visitor

    class MsgReader(pyx12.error_visitor.error_visitor):
        def __init__(self):
            self.segs = []       # {'line', 'id', 'errors': [(code, msg, value)], 'ele': [(pos, sub, code, msg, value)]}
            self.env = []        # {'level', 'lines': (header line, trailer line), 'ele': [...]}
            self.env_level_errors = 0
            self.cur = None

        def visit_root_pre(self, errh): pass
        def visit_root_post(self, errh): pass

        def _env(self, n, level, a, b):
            self.env_level_errors += len(n.errors)
            d = {'level': level, 'lines': (getattr(n, a, None), getattr(n, b, None)), 'ele': []}
            for el in getattr(n, 'elements', []):
                for e in el.errors:
                    d['ele'].append((el.ele_pos, el.subele_pos, e[0], e[1], e[2]))
            self.env.append(d)

        def visit_isa_pre(self, n): self._env(n, 'isa', 'cur_line_isa', 'cur_line_iea')
        def visit_isa_post(self, n): pass
        def visit_gs_pre(self, n): self._env(n, 'gs', 'cur_line_gs', 'cur_line_ge')
        def visit_gs_post(self, n): pass
        def visit_st_pre(self, n): self._env(n, 'st', 'cur_line_st', 'cur_line_se')
        def visit_st_post(self, n): pass

        def visit_seg(self, n):
            self.cur = {'line': n.cur_line, 'id': n.seg_id, 'errors': [(e[0], e[1], e[2]) for e in n.errors], 'ele': []}
            self.segs.append(self.cur)

        def visit_ele(self, n):
            for e in n.errors:
                self.cur['ele'].append((n.ele_pos, n.subele_pos, e[0], e[1], e[2]))

    return MsgReader()


def observe(text):
    from mc import pipe
    pipe.stub_clock()
    o = pipe.run(text, sinks=('html',), want_nodes=False)
    tree = None
    if o.exc is None and pipe._captured:
        tree = msg_reader()
        pipe._captured[0].accept(tree)
    return o, tree


# ---------------------------------------------------------------------------------------------------
# reference rendering of the source segments
# ---------------------------------------------------------------------------------------------------
def expected_segments(text):
    """per token of the reference tokenizer the admissible renderings [(segment text in its original
    delimiters, origin string)]: as written (an element-less segment in its formatted form); origin has one letter per character: i = segment id, d = delimiter,
    v = element value"""
    toks, d = ref.tokenize(text)
    seg_t, ele, sub = d
    out = []
    murky = False
    for t in toks:
        if t.id is None:
            murky = True
            continue
        if t.murky or t.blank:
            murky = True
        forms = []
        # the report lists the segment as it was READ ("stripping the markup recovers the source segments"): trailing
        # empty elements / components are part of it; only a segment without any element has the pinned 'AAA*~' form
        for e in ([t.eles] if (t.id == 'ISA' or ref.trim(t.eles)) else [ref.trim(t.eles)]):
            s = [t.id]; o = ['i' * len(t.id)]
            if not e:
                s.append(ele); o.append('d')       # 'AAA' formats as 'AAA*~' (pinned by the suite)
            for comps in e:
                s.append(ele); o.append('d')
                for k, c in enumerate(comps):
                    if k:
                        s.append(sub); o.append('d')
                    s.append(c); o.append('v' * len(c))
            s.append(seg_t); o.append('d')
            f = (''.join(s), ''.join(o))
            if f not in forms:
                forms.append(f)
        out.append(forms)
    return out, murky


NAMES = {'i': 'segment id', 'd': 'delimiter', 'v': 'element value'}


def judge(text, o, tree, stats=None):
    """-> list of (key, message); stats (a Counter) receives what was compared and what was left open"""
    if stats is None:
        stats = {}
    v = []
    html = o.html
    if not html:
        return [('C19|no report', 'validation completed but nothing was written to the HTML sink')]
    exp, murky = expected_segments(text)
    try:
        lines = read_report(html)
    except Broken as b:
        where = b.ctx
        if where.startswith('span.error'):
            key = 'C19|not escaped|error message'
        elif where.startswith('span.seg'):
            # which part of the segment being written is special?  (names the key only)
            k = len([l for l in b.lines if l[0] == 'seg']) - (1 if where.endswith('(line end)') else 0)
            org = 'v'
            if 0 <= k < len(exp):
                sp = [o_ for c, o_ in zip(exp[k][0][0], exp[k][0][1]) if c in SPECIAL]
                org = 'i' if 'i' in sp else ('d' if 'd' in sp else 'v')
            key = 'C19|not escaped|%s in segment line' % NAMES[org]
        else:
            key = 'C19|structure|%s' % where
        return [(key, 'report is not of the template\'s shape in %s: %s' % (where, b.what))]
    # ----- 2. segment lines -----------------------------------------------------------------------
    segl = [(i, l) for i, l in enumerate(lines) if l[0] == 'seg']
    got = []          # (index in lines, line number, raw text after the number)
    for (i, l) in segl:
        raw = l[1]
        k = raw.find(':')
        num = int(raw[:k]) if k > 0 and raw[:k].isdigit() else None
        rest = raw[k + 1:] if num is not None else raw
        if num is not None:
            if rest.startswith('&nbsp;'):
                rest = rest[6:]
            elif rest.startswith(' '):
                rest = rest[1:]
            else:
                num = None; rest = raw
        got.append((i, num, rest))
    def match(raw, forms):
        for f in forms:
            fl = align(raw, f[0])
            if fl is not None:
                return f, fl
        return None, None

    if len(got) != len(exp):
        k = 0
        while k < len(got) and k < len(exp) and match(got[k][2], exp[k])[0] is not None:
            k += 1
        v.append(('C19|segments|report has %s segment lines than the source has segments' % ('fewer' if len(got) < len(exp) else 'more'),
                  'source has %d segments, report %d segment lines; first difference at #%d: source %r, report %r'
                  % (len(exp), len(got), k + 1, exp[k][0][0] if k < len(exp) else None, got[k][2] if k < len(got) else None)))
    else:
        rawseen = set()
        for k, (g, forms) in enumerate(zip(got, exp)):
            e, fl = match(g[2], forms)
            if e is None:
                v.append(('C19|segments|a segment line differs from the source segment', 'segment #%d: source %r, report line %r' % (k + 1, forms[-1][0], g[2])))
                break
            for ch, esc, org in zip(e[0], fl, e[1]):
                if ch in SPECIAL and not esc and org not in rawseen:
                    rawseen.add(org)
                    v.append(('C19|not escaped|%s in segment line' % NAMES[org], 'line %s: the %s character %r of segment %r is written raw: %r' % (g[1], NAMES[org], ch, e[0][:60], g[2][:80])))
        nums = [g[1] for g in got]
        if any(n is None for n in nums):
            v.append(('C19|segments|line number missing', 'a segment line does not start with "<number>: ": %r' % [g[2] for g in got if g[1] is None][:2]))
        elif not murky and nums != list(range(1, len(nums) + 1)):
            v.append(('C19|segments|line numbers', 'line numbers are %r..., expected 1..%d' % (nums[:12], len(nums))))
        elif any(b <= a for a, b in zip(nums, nums[1:])):
            v.append(('C19|segments|line numbers', 'line numbers do not increase: %r' % nums[:20]))
    # ----- 3. errors next to their segment ---------------------------------------------------------
    if tree is None:
        return v
    byline = {}
    for k, g in enumerate(got):
        if g[1] is not None:
            byline.setdefault(g[1], []).append(k)
    seg_idx = [g[0] for g in got]
    err_texts = []
    for i, l in enumerate(lines):
        if l[0] == 'error':
            u = units(l[1])
            err_texts.append((i, ''.join(c for c, _ in u), u, l[1]))

    def neighbourhood(k):
        lo = seg_idx[k - 1] if k > 0 else -1
        hi = seg_idx[k + 1] if k + 1 < len(seg_idx) else len(lines)
        return [x for x in err_texts if lo < x[0] < hi]

    ids = [forms[0][0][:forms[0][1].count('i')] for forms in exp]
    nested = ref.nests([[i_] for i_ in ids])
    open_ = [0, 0]

    def check(level, segid, line_nos, code, msg, val, envelope=False):
        if not isinstance(msg, str) or msg == '':
            return
        ks = [k for ln in line_nos if ln is not None for k in byline.get(ln, [])]
        if not ks and not envelope:
            v.append(('C19|error|%s error of a segment whose line is not in the report' % level, '%s error %s at %s line %r: no segment line with that number' % (level, code, segid, line_nos)))
            return
        near = [x for k in ks for x in neighbourhood(k)]
        hit = [x for x in near if msg in x[1]]
        if not hit and not envelope and len(got) == len(exp):
            # errors the reader finds on an SE/GE/IEA are hung on the node of the segment before it; which of
            # the two is 'the segment it was reported for' is left open: next to the trailer is accepted too
            for k in ks:
                if k + 1 < len(ids) and ids[k + 1] in ('SE', 'GE', 'IEA'):
                    hit += [x for x in neighbourhood(k + 1) if msg in x[1]]
            if hit:
                open_[0] += 1
        if not hit and envelope:
            # the tree does not say on which of the two segments (or on which of several headers / trailers of a
            # not properly nested document) the element error was found: placement is not judged
            hit = [x for x in err_texts if msg in x[1]]
            near = err_texts
            if hit:
                open_[1] += 1
        if not hit:
            rawhit = [x for x in near if msg in x[3]]
            if rawhit:
                v.append(('C19|not escaped|error message', '%s error %s at %s line %r: message %r is in the report verbatim (%r), so reading the report as HTML yields a different text'
                          % (level, code, segid, line_nos, msg[:120], rawhit[0][3][:120])))
            else:
                # source-derived qualifier: does the segment lie in the first interchange of the file?
                nisa = len([1 for i_ in ids[:max(ks) + 1] if i_ == 'ISA']) if ks and len(got) == len(exp) else 1
                part = 'first interchange' if nisa <= 1 else 'later interchange'
                if not nested:
                    part = 'headers and trailers do not nest'
                if envelope:
                    what = 'shown nowhere'
                elif any(msg in x[1] for x in err_texts):
                    what = 'not next to its segment (the same text is shown elsewhere)'
                else:
                    what = 'shown nowhere'
                v.append(('C19|error|%s message not shown next to its segment|%s' % (level, part), '%s error %s at %s line %r: message %r is %s (errors shown next to that line: %r)'
                          % (level, code, segid, line_nos, msg[:120], what, [x[1][:60] for x in (near if not envelope else [])][:4])))
            return
        if isinstance(val, str) and val and any(c in val for c in SPECIAL) and val in msg:
            x = hit[0]
            p = x[1].find(msg)
            q = msg.find(val)
            while q >= 0:
                for (ch, esc) in x[2][p + q:p + q + len(val)]:
                    if ch in SPECIAL and not esc:
                        v.append(('C19|not escaped|error message', '%s error %s at %s line %r: %r of the echoed value %r is written raw in %r' % (level, code, segid, line_nos, ch, val[:40], x[3][:160])))
                        return
                q = msg.find(val, q + 1)

    for s in tree.segs:
        for (code, msg, val) in s['errors']:
            check('segment-level', s['id'], [s['line']], code, msg, val)
        for (pos, sub, code, msg, val) in s['ele']:
            check('element-level', s['id'], [s['line']], code, msg, val)
    for d in tree.env:
        for (pos, sub, code, msg, val) in d['ele']:
            check('element-level (header/trailer)', d['level'].upper(), list(d['lines']), code, msg, val, envelope=True)
    for name, n in (('segment lines compared', len(got)), ('segment/element errors looked for', sum(len(s['errors']) + len(s['ele']) for s in tree.segs)),
                    ('header/trailer element errors looked for', sum(len(d['ele']) for d in tree.env)),
                    ('open: error hung on the segment before a trailer, shown next to the trailer', open_[0]),
                    ('open: placement of a header/trailer element error (tree does not say which segment)', open_[1]),
                    ('outside the statement: interchange/group/set level errors', tree.env_level_errors)):
        if n:
            stats[name] = stats.get(name, 0) + n
    # one defect, one key
    seen = set(); out = []
    for k, m in v:
        if k not in seen:
            seen.add(k); out.append((k, m))
    return out


# ---------------------------------------------------------------------------------------------------
# payload corpus
# ---------------------------------------------------------------------------------------------------
PAYLOADS = ['<b>x</b>', '&', '"', "'", '>', '<!--', '</span>', 'a  b', '&amp;', '<script>alert(1)</script>',
            # text that means something to a formatting operator (printf-style and str.format): it is data too
            '100% A', '%%', '{0}%s']
FOREIGN = ['a~b*c:d', '<~*:&>']            # only usable under non-standard delimiters
DELIMS = [('~', '*', ':'), ('!', '|', '>'), ('!', '|', '}'), ('<', '&', '>')]
QUICK_MAPS = ('834.4010.X095.A1.xml', '837.5010.X222.A1.xml')
MORE_MAPS = ('835.5010.X221.A1.xml', '837.4010.X098.A1.xml', '834.5010.X220.A1.xml', '270.4010.X092.A1.xml', '277.5010.X212.xml', '820.5010.X218.xml')
ENVELOPE = ('ISA', 'GS', 'ST', 'SE', 'GE', 'IEA')


def clone(d):
    """copy of a generated document whose values can be edited (the grammar nodes are shared)"""
    c = gen.Doc()
    c.segs = [[list(x) if isinstance(x, list) else x for x in s] for s in d.segs]
    c.nodes = list(d.nodes); c.lpaths = list(d.lpaths); c.plan = d.plan; c.entry = d.entry
    return c


def fit(p, mn, mx):
    v = p + 'A' * max(0, mn - len(p))
    return v[:mx]


def too_long(p, mx):
    return (p * (mx + 2))[:mx + len(p) + 1]


def targets(base):
    """(free-text AN elements, coded elements, components) present in the body of `base`"""
    de = gen.G.dataele()
    an = []; coded = []; comp = []
    for i, (s, n) in enumerate(zip(base.segs, base.nodes)):
        if s[0] in ENVELOPE or s[0] in ('HL', 'LX'):
            continue
        for c in n.children:
            if c.seq >= len(s) or s[c.seq] == '' or c.usage == 'N':
                continue
            if c.kind == 'ele':
                ty = de.get(c.de, ('', 0, 0))
                if not c.codes and not c.ext and ty[0] == 'AN':
                    an.append((i, c.seq, ty[1], ty[2]))
                elif c.codes and c.seq > 1:
                    coded.append((i, c.seq, ty[1], ty[2]))
            elif c.kind == 'comp' and isinstance(s[c.seq], list):
                for e in c.children:
                    if e.seq - 1 < len(s[c.seq]) and s[c.seq][e.seq - 1] != '' and e.usage != 'N':
                        ty = de.get(e.de, ('', 0, 0))
                        comp.append((i, c.seq, e.seq - 1, ty[1], ty[2], bool(e.codes)))
    return an, coded, comp


def spread(seq, n):
    """n items of seq, evenly spaced, first and last included (deterministic)"""
    seq = list(seq)
    if len(seq) <= n:
        return seq
    return [seq[(k * (len(seq) - 1)) // (n - 1)] for k in range(n)]


def payload_docs(thorough):
    maps = QUICK_MAPS + (MORE_MAPS if thorough else ())
    nt = 6 if thorough else 3
    for e in corpus.one_entry_per_map():
        if e[4] not in maps:
            continue
        base = corpus.build_ok(e, {'all': True, 'fill_all': True}) or corpus.build_ok(e, {})
        if base is None:
            continue
        an, coded, comp = targets(base)
        two = corpus.build_ok(e, {'sets': 2}) or base
        for di, dl in enumerate(DELIMS):
            tag = 'payload:%s:d%d' % (e[4], di)

            def T(d):
                return d.text(dl[0], dl[1], dl[2], eol='\n')
            # the delimiters alone are input
            yield (tag + ':plain', T(base), {})
            ps = [p for p in PAYLOADS + (FOREIGN if di else []) if not any(c in p for c in dl)]
            for pi, p in enumerate(ps):
                pt = '%s:p%d' % (tag, (PAYLOADS + FOREIGN).index(p))
                # (a) valid free text
                for (i, seq, mn, mx) in spread([t for t in an if t[3] >= len(p)] or an, nt):
                    d = clone(base)
                    d.segs[i][seq] = fit(p, mn, mx)
                    yield ('%s:free@%d-%d' % (pt, i, seq), T(d), {})
                d = clone(base)
                for (i, seq, mn, mx) in an:
                    d.segs[i][seq] = fit(p, mn, mx)
                yield (pt + ':free-everywhere', T(d), {})
                # (b) rejected and echoed
                for (i, seq, mn, mx) in spread(an, nt):
                    d = clone(base)
                    d.segs[i][seq] = too_long(p, mx)
                    yield ('%s:long@%d-%d' % (pt, i, seq), T(d), {})
                for (i, seq, mn, mx) in spread(coded, nt):
                    d = clone(base)
                    d.segs[i][seq] = p
                    yield ('%s:coded@%d-%d' % (pt, i, seq), T(d), {})
                for (i, seq, k, mn, mx, cd) in spread(comp, nt):
                    d = clone(base)
                    d.segs[i][seq] = list(d.segs[i][seq])
                    d.segs[i][seq][k] = p if cd else too_long(p, mx)
                    yield ('%s:component@%d-%d-%d' % (pt, i, seq, k + 1), T(d), {})
                # several errors on one segment: every target of the segment at once
                per_seg = {}
                for t in an:
                    per_seg.setdefault(t[0], []).append(('an', t))
                for t in coded:
                    per_seg.setdefault(t[0], []).append(('coded', t))
                many = [i for i in sorted(per_seg) if len(per_seg[i]) >= 2]
                for i in spread(many, 2):
                    d = clone(base)
                    for (kind, t) in per_seg[i]:
                        d.segs[i][t[1]] = too_long(p, t[3]) if kind == 'an' else p
                    yield ('%s:segment-many@%d' % (pt, i), T(d), {})
                d = clone(base)
                for t in an:
                    d.segs[t[0]][t[1]] = too_long(p, t[3])
                for t in coded:
                    d.segs[t[0]][t[1]] = p
                yield (pt + ':many', T(d), {})
                # extra elements carrying the payload
                i = (an or coded or [(len(base.segs) // 2,)])[0][0]
                d = clone(base)
                d.segs[i] = d.segs[i] + [''] * 30 + [p]
                yield ('%s:extra-element@%d' % (pt, i), T(d), {})
                # (c) envelope: control numbers and ids, consistent and inconsistent
                for what in ('ST02', 'ST02+SE02', 'GS06', 'GS06+GE02', 'GS02', 'SE01', 'GE01', 'ST01', 'ISA06', 'ISA13+IEA02', 'IEA02'):
                    d = clone(two)
                    done = set()
                    for s in d.segs:
                        for w in what.split('+'):
                            if s[0] == w[:-2] and w not in done:
                                done.add(w)
                                k = int(w[-2:])
                                while len(s) <= k:
                                    s.append('')
                                if w == 'ISA06':
                                    s[k] = p.ljust(15)[:15]
                                elif w == 'ISA13':
                                    s[k] = p.rjust(9, '0')[:9]
                                elif w == 'IEA02':
                                    s[k] = p.rjust(9, '0')[:9]
                                else:
                                    s[k] = p
                    yield ('%s:%s' % (pt, what), T(d), {})
                # (d) payload as a segment id, and an unterminated document whose open envelopes carry it
                d = clone(base)
                k = len(d.segs) - 3
                d.segs.insert(k, [p, 'A']); d.nodes.insert(k, None)
                yield (pt + ':segment-id', T(d), {})
                d = clone(two)
                for s in d.segs:
                    if s[0] == 'ST':
                        s[2] = fit(p, 4, 9)
                    if s[0] == 'GS':
                        s[6] = fit(p, 1, 9)
                d.segs = d.segs[:-3]
                yield (pt + ':open-envelopes', T(d), {})


# ---------------------------------------------------------------------------------------------------
def run_text(label, text, stats=None):
    o, tree = observe(text)
    if o.exc:
        return None, 'validation does not complete (C07 domain): %s@%s' % (o.exc, o.exc_where)
    if not ref.header_ok(text):
        return None, 'ISA header not well formed (reference tokenizer undefined)'
    return judge(text, o, tree, stats), None


def items(thorough, family):
    if family == 'payload':
        return payload_docs(thorough)
    if family == 'mutant':
        def gen_():
            names = ('suite:834_lui_id_5010', 'suite:mult_isa') if not thorough else ('suite:834_lui_id_5010', 'suite:mult_isa', 'suite:simple_837p', 'suite:trailer_errors')
            bases = [it for it in corpus.suite_docs() if it[0] in names]
            for lab, txt, info in bases:
                for ml, mt in corpus.mutations(txt):
                    if ml.startswith('long-element'):
                        continue        # 9000 character elements: nothing HTML-specific, and costly
                    yield ('mutant:%s:%s' % (lab, ml), mt, {})
        return gen_()
    return c05.items(thorough, family)


def work(shard):
    family, part, nparts, thorough = shard
    P = core.Part()
    for i, it in enumerate(ITEMS[family]):
        if i % nparts != part:
            continue
        text = it[1]
        P.n += 1
        v, skip = run_text(it[0], text, P.counters)
        if skip:
            P.counters['skipped: ' + skip] += 1
            continue
        lab = it[0].split(':')
        if family == 'payload':
            P.out('payload|%s|%s' % (lab[2], (lab[4].split('@')[0] if len(lab) > 4 else lab[3])))
            if len(lab) > 4:
                P.out('payload|%s|%s' % (lab[2], lab[3]))
        else:
            P.out('%s|%s' % (family, lab[2][:14] if len(lab) >= 3 and family in ('valid', 'fault') else lab[1][:12]))
        P.counters['reports checked'] += 1
        for k, m in v:
            P.bad(k, {'label': it[0], 'text': text}, '%s: %s' % (it[0], m))
        if not v and P.n % 41 == 1:
            P.sample({'label': it[0], 'bytes': len(text)}, cap=1)
    return P


def evaluate(case):
    v, skip = run_text(case['label'], case['text'])
    return v or []


ITEMS = {}


def materialise(thorough, families):
    for fam in families:
        if fam not in ITEMS:
            ITEMS[fam] = [(it[0], corpus.text_of(it), {}) for it in items(thorough, fam)]


def run(R):
    shards = []
    for fam, n in (('valid', 16), ('fault', 32), ('shape', 16), ('suite', 4), ('mutant', 48), ('payload', 64)):
        for p in range(n):
            shards.append((fam, p, n, R.thorough))
    materialise(R.thorough, sorted(set(s[0] for s in shards)))
    R.cov['documents_per_family'] = dict((k, len(v)) for k, v in ITEMS.items())
    R.pmap(work, shards)
    R.bounds = {
        'valid': 'per map: min, all, all-filled, 2 sets/groups/interchanges, last codes' + (' + every d<=1 plan' if R.thorough else ''),
        'fault': 'per map one target per C03 fault kind' + (' / per definition signature' if R.thorough else ''),
        'shape': '{1,2,3}^3 interchanges x groups x sets for two maps, clean and with a faulty first/middle/last set',
        'suite': 'all sources of pyx12.test.x12testdata',
        'mutant': 'every single structural mutation (corpus.mutations, minus the 9000-character element) of %d suite documents' % (4 if R.thorough else 2),
        'payload': '%d maps x %d delimiter sets %r x payloads %r (+ %r under foreign delimiters; payloads containing a delimiter of the set are left out) x {valid free text at %d AN elements and at all, too long at %d, in %d coded elements, in %d components, all targets of one segment (2 segments), all targets of the document, as an extra element, in 11 envelope fields, as a segment id, in the control numbers of unterminated envelopes} + the plain document'
                   % (len(QUICK_MAPS + (MORE_MAPS if R.thorough else ())), len(DELIMS), DELIMS, PAYLOADS, FOREIGN, 6 if R.thorough else 3, 6 if R.thorough else 3, 6 if R.thorough else 3, 6 if R.thorough else 3),
    }
    R.assumptions = [
        'documents on which validation raises are C07 matters and skipped here (counted per exception site)',
        'a segment line may show the segment as written or with trailing empty elements / components dropped (the documented normalisation); a bare id is written with one separator (pinned by the suite)',
        'line number = ordinal of the segment; when the source contains blank or empty pieces only "increasing" is demanded',
        '"next to" = in the run of error lines directly before or directly after the segment line that carries the line number of the error node',
        'an error the tree hangs on the segment preceding an SE/GE/IEA is also accepted next to that trailer (the reader\'s findings on a trailer are attributed to the previous node; counted as open)',
        'element errors of ISA/IEA, GS/GE, ST/SE segments hang on the interchange/group/set node, which does not say on which of the two segments they were found: they must be shown somewhere in the report, their placement is not judged (counted as open)',
        'errors held at interchange / group / set level (control numbers, counts, missing trailers) are neither segment- nor element-level and are not looked for (counted); the spans that show them must still be well formed and escaped',
        'blanks and quotes may be written raw (they cannot introduce markup); < > & that came from the input (values, segment ids, delimiters, values echoed in messages) may not',
        'message text is compared as data (substring of the unescaped span text), never interpreted; finding keys carry a source-derived qualifier (first / later interchange, envelopes not nesting)',
    ]
    return R.finish(LEVEL, 'one document per execution; distinct = (family, plan / fault kind / source / payload x delimiter set x placement)', exhaustive=True)
