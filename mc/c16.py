"""
C16 - shipped maps, index and code tables are consistent and fully addressable.

A complete walk of a finite configuration (E1 with bound = everything): every entry of maps.xml, every map
file on disk or named by the index, every loop / segment / element / composite / sub-element in them, and
both ways of locating the map directory (packaged resources, explicit directory).

Expected side: mc.grammar (an xml.etree reading of the same XML that does not import pyx12.map_if) plus a
raw pass over the XML for document order.  Observed side: pyx12.map_if.load_map_file trees (both modes),
pyx12.map_index.map_index (both modes), DataElements, ExternalCodes, RawX12File (version admission),
segment_if/loop_if.is_match (qualifier matcher), getnodebypath / getnodebypath2.

Tiers: both walk the whole configuration (it is finite and takes seconds).  quick fetches every node by its
absolute path from the map root; thorough additionally fetches it by the relative path from every enclosing loop.

Finding keys
  data defects   C16|data|<file>|<node>|<what>            (file + node + reference: one key per defect)
                 C16|index|<icvn>/<vriic>/<fic>/<tspc>|<what>
                 C16|load|<file>|raises <Exc>@<where>
                 C16|path-unique|<kind>|<file>|<path>     (two loops / segments reporting one path)
  code defects   C16|path-unique|<kind>|<why>             (coarse: one per mechanism)
                 C16|fetch|<function>|<kind>|<outcome>
                 C16|tree|..., C16|match|..., C16|tables|..., C16|index-impl|...
"""
import os, io, re, collections, functools
import xml.etree.ElementTree as et
from mc import core, ref
from mc import grammar as G

ID = 'C16'
LEVEL = 'model_checking'
FULL_IN_QUICK = True     # the complete space costs seconds: quick == thorough
MODES = ('pkg', 'dir')
MAXINT = 2147483647


def explicit_dir():
    return os.path.join(core.REPO, 'pyx12', 'map')


def all_files():
    return sorted(set(G.map_files()) | set(e[4] for e in G.index() if e[4]))


def indexed_files():
    return set(e[4] for e in G.index())


# ----- small helpers -----------------------------------------------------------------------------
def kids(n):
    """children of a pyx12 node in the order the library itself iterates them"""
    if n.is_map_root() or n.is_loop():
        return [c for k in sorted(n.pos_map) for c in n.pos_map[k]]
    return list(n.children)


def gkids(gn):
    return list(getattr(gn, 'children', []))


def gkind(gn):
    if gn.kind == 'ele' and gn.parent.kind == 'comp':
        return 'sub'
    return gn.kind


def ikind(n):
    if n.is_map_root():
        return 'root'
    if n.is_loop():
        return 'loop'
    if n.is_segment():
        return 'seg'
    if n.is_composite():
        return 'comp'
    if n.is_element():
        return 'sub' if n.parent.is_composite() else 'ele'
    return '?'


KINDNAME = {'loop': 'loop', 'seg': 'segment', 'ele': 'element', 'comp': 'composite', 'sub': 'sub-element', 'root': 'root'}


def assign_upaths(root):
    """a path that is unique inside the reference tree: ids joined by '/', '~k' added to the k-th of several
    same-id children of one parent"""
    root.upath = ''
    stack = [root]
    while stack:
        n = stack.pop()
        ch = gkids(n)
        cnt = collections.Counter(c.id for c in ch)
        seen = collections.Counter()
        for c in ch:
            seen[c.id] += 1
            c.upath = n.upath + '/' + str(c.id) + ('~%d' % seen[c.id] if cnt[c.id] > 1 else '')
            stack.append(c)


def first_seg(gn):
    while gn is not None and gn.kind == 'loop':
        ch = gkids(gn)
        gn = ch[0] if ch else None
    return gn


def sig(gn):
    """what the statement lets a matcher look at: (segment id, qualifier position, qualifier code set)"""
    s = first_seg(gn)
    if s is None:
        return None
    q, where = G.qual_ele(s)
    return (s.id, where, frozenset(q.codes) if q is not None else None)


def distinguishable(a, b):
    if a is None or b is None:
        return False
    if a[0] != b[0]:
        return True
    if a[2] is None or b[2] is None or a[1] != b[1]:
        return False
    return not (a[2] & b[2])


def probe_segment(segid, where, code):
    """a data segment carrying `code` at the qualifier position; returns (parts, value seen at each position)"""
    if where in ('01', '01-1'):
        return [segid, code], {'01': code, '01-1': code, '02': '', '03': ''}
    if where == '02':
        return [segid, '1', code], {'01': '1', '01-1': '1', '02': code, '03': ''}
    if where == '03':
        return [segid, '1', '', code], {'01': '1', '01-1': '1', '02': '', '03': code}
    return None, None


def ref_limit(v):
    """reference reading of a repeat / max_use text: int, MAXINT for '>1', None if absent, 'bad' otherwise"""
    if v is None:
        return None
    if v == '>1':
        return MAXINT
    if re.match(r'^[0-9]+\Z', v):
        return int(v)
    return 'bad'


RE_SYNTAX = re.compile(r'^[PRECL]([0-9]{2}){2,}\Z')


def ref_syntax(notes):
    out = []
    for s in notes:
        if s and s[0] in 'PRECL':
            try:
                t, pos = G.syntax_parts(s)
                out.append(tuple([t] + pos))
            except ValueError:
                out.append(('unparsable', s))
    return tuple(out)


# ----- dumps (id / usage / pos / repeat / max_use / syntax / data_ele / codes / external ...) --------
def gdump(gn):
    k = gkind(gn)
    if k == 'root':
        return collections.OrderedDict(kind=k, id=gn.id)
    if k == 'loop':
        return collections.OrderedDict(kind=k, id=gn.id, usage=gn.usage, pos=gn.pos, repeat=gn.repeat, type=gn.type, name=gn.name)
    if k == 'seg':
        return collections.OrderedDict(kind=k, id=gn.id, usage=gn.usage, pos=gn.pos, max_use=gn.max, syntax=ref_syntax(gn.syntax), name=gn.name)
    if k == 'comp':
        return collections.OrderedDict(kind=k, id=gn.id, usage=gn.usage, seq=gn.seq, data_ele=gn.de, refdes=gn.refdes, name=gn.name)
    return collections.OrderedDict(kind=k, id=gn.id, usage=gn.usage, seq=gn.seq, data_ele=gn.de, codes=tuple(gn.codes),
                                   external=gn.ext, name=gn.name, regex=gn.regex or None)


def idump(n):
    k = ikind(n)
    if k == 'root':
        return collections.OrderedDict(kind=k, id=n.id)
    if k == 'loop':
        return collections.OrderedDict(kind=k, id=n.id, usage=n.usage, pos=n.pos, repeat=n.repeat, type=n.type, name=n.name)
    if k == 'seg':
        return collections.OrderedDict(kind=k, id=n.id, usage=n.usage, pos=n.pos, max_use=n.max_use,
                                       syntax=tuple(tuple(s) for s in n.syntax), name=n.name)
    if k == 'comp':
        return collections.OrderedDict(kind=k, id=n.id, usage=n.usage, seq=n.seq, data_ele=n.data_ele, refdes=n.refdes, name=n.name)
    return collections.OrderedDict(kind=k, id=n.id, usage=n.usage, seq=n.seq, data_ele=n.data_ele, codes=tuple(n.valid_codes),
                                   external=n.external_codes, name=n.name, regex=n.res or None)


# ----- per-file context ----------------------------------------------------------------------------
class Ctx(object):
    pass


class Failed(object):
    """what is kept of an exception (keeping the exception itself keeps its frames and the half-built tree alive)"""

    def __init__(self, e):
        self.name = type(e).__name__
        self.where = core.where(e)
        self.text = repr(e)


def load_impl(fname, mode):
    import pyx12.map_if, pyx12.params
    param = pyx12.params.params()
    return pyx12.map_if.load_map_file(fname, param, None if mode == 'pkg' else explicit_dir())


@functools.lru_cache(None)
def context(fname):
    c = Ctx()
    c.file = fname
    c.exists = os.path.isfile(os.path.join(G.MAPDIR, fname))
    c.g = None
    c.gerr = None
    c.trees = {}
    c.impl = {m: {} for m in MODES}      # id(reference node) -> pyx12 node
    c.struct = []                        # structural disagreements found while pairing the trees
    c.pathcount = collections.Counter()
    c.pathnodes = collections.defaultdict(list)
    c.ambiguous = set()                  # id(reference loop/segment) that has an indistinguishable same-position sibling
    if not c.exists:
        return c
    try:
        c.g = G.load(fname)
        assign_upaths(c.g)
    except Exception as e:
        c.gerr = Failed(e)
    for m in MODES:
        try:
            c.trees[m] = load_impl(fname, m)
        except Exception as e:
            c.trees[m] = Failed(e)
    if c.g is not None:
        for gn in G.walk(c.g):
            if gn.kind in ('root', 'loop'):
                by = collections.defaultdict(list)
                for ch in gkids(gn):
                    by[ch.pos].append(ch)
                for grp in by.values():
                    sigs = [sig(x) for x in grp]
                    for i in range(len(grp)):
                        for j in range(i + 1, len(grp)):
                            if not distinguishable(sigs[i], sigs[j]):
                                c.ambiguous.add(id(grp[i]))
                                c.ambiguous.add(id(grp[j]))
        for m in MODES:
            t = c.trees[m]
            if isinstance(t, Failed):
                continue
            stack = [(c.g, t)]
            while stack:
                gn, n = stack.pop()
                c.impl[m][id(gn)] = n
                a, b = gkids(gn), kids(n)
                if [(gkind(x), x.id) for x in a] != [(ikind(y), y.id) for y in b]:
                    c.struct.append((m, gn, [(gkind(x), x.id) for x in a], [(ikind(y), y.id) for y in b]))
                    continue
                stack.extend(zip(a, b))
        t = c.trees['pkg']
        if not isinstance(t, Failed):
            for gn in G.walk(c.g):
                n = c.impl['pkg'].get(id(gn))
                if n is None or gn.kind == 'root':
                    continue
                try:
                    p = n.get_path()
                except Exception:
                    continue
                c.pathcount[p] += 1
                c.pathnodes[p].append(gn)
    return c


def locate(c, ip):
    gn = c.g
    for i in ip:
        ch = gkids(gn)
        if i >= len(ch):
            return None
        gn = ch[i]
    return gn


def ipath(gn):
    ip = []
    while gn.parent is not None:
        ip.append(gkids(gn.parent).index(gn))
        gn = gn.parent
    return ip[::-1]


def seg_of(gn):
    while gn is not None and gn.kind != 'seg':
        gn = gn.parent
    return gn


# ----- the node check --------------------------------------------------------------------------------
class Checker(object):
    def __init__(self, c, thorough):
        self.c = c
        self.thorough = thorough
        self.n = 0
        self.outs = set()
        self.counters = collections.Counter()

    def out(self, *a):
        self.outs.add('|'.join(str(x) for x in a))

    def data(self, gn, what):
        return 'C16|data|%s|%s|%s' % (self.c.file, gn.upath or '/', what)

    # -- data well-formedness, judged on the reference reading ----------------------------------------
    def data_checks(self, gn, F):
        k = gkind(gn)
        if k != 'root':
            self.n += 1
            ok = gn.usage in ('R', 'S', 'N')
            self.out(k, 'usage', gn.usage if ok else 'bad')
            if not ok:
                F.append((self.data(gn, 'usage %r' % (gn.usage,)), 'usage must be R, S or N'))
        if k in ('loop', 'seg'):
            v = gn.repeat if k == 'loop' else gn.max
            what = 'repeat' if k == 'loop' else 'max_use'
            self.n += 1
            lim = ref_limit(v)
            self.out(k, what, 'absent' if lim is None else ('bad' if lim == 'bad' else ('>1' if lim == MAXINT else 'int')))
            if lim is None:
                self.counters['%s absent (left open by the statement)' % what] += 1
            elif lim == 'bad':
                F.append((self.data(gn, '%s %r' % (what, v)), '%s must be an integer or >1' % what))
        if k == 'seg':
            nel = len(gkids(gn))
            for s in gn.syntax:
                self.n += 1
                if not s or not RE_SYNTAX.match(s):
                    self.out('seg', 'syntax', 'malformed')
                    F.append((self.data(gn, 'syntax %r malformed' % (s,)), 'a syntax note is one of P R E C L followed by two or more 2-digit positions'))
                    continue
                t, pos = G.syntax_parts(s)
                if min(pos) < 1 or max(pos) > nel:
                    self.out('seg', 'syntax', 'position beyond the segment')
                    F.append((self.data(gn, 'syntax %s names position %02d of %d' % (s, max(pos), nel)),
                              'syntax note %s refers to an element position the segment does not define (%d elements)' % (s, nel)))
                else:
                    self.out('seg', 'syntax', t, len(pos))
        if k in ('ele', 'sub'):
            self.n += 1
            if gn.de not in G.dataele():
                self.out(k, 'data_ele', 'undefined')
                F.append((self.data(gn, 'data_ele %s undefined' % gn.de), 'element %s refers to data element %r which dataele.xml does not define' % (gn.id, gn.de)))
            else:
                self.out(k, 'data_ele', 'defined', G.dataele()[gn.de][0])
            if gn.ext:
                self.n += 1
                if gn.ext not in G.extcodes():
                    self.out(k, 'external', 'undefined')
                    F.append((self.data(gn, 'external %s undefined' % gn.ext), 'element %s names external code set %r which codes.xml does not define' % (gn.id, gn.ext)))
                else:
                    self.out(k, 'external', 'defined')
        if k in ('root', 'loop'):
            self.same_position(gn, F)

    def same_position(self, gn, F):
        by = collections.OrderedDict()
        for ch in gkids(gn):
            by.setdefault(ch.pos, []).append(ch)
        for pos, grp in by.items():
            if len(grp) < 2:
                continue
            sigs = [sig(x) for x in grp]
            for i in range(len(grp)):
                for j in range(i + 1, len(grp)):
                    self.n += 1
                    if distinguishable(sigs[i], sigs[j]):
                        self.out('same-pos', grp[i].kind, grp[j].kind, 'distinct id' if sigs[i][0] != sigs[j][0] else 'disjoint qualifier at ' + str(sigs[i][1]))
                        continue
                    a, b = sigs[i], sigs[j]
                    if a is None or b is None:
                        why = 'a loop without a first segment'
                    elif a[2] is None or b[2] is None:
                        why = 'both start with %s and no qualifier code list' % a[0]
                    elif a[1] != b[1]:
                        why = 'both start with %s, qualifiers at different positions' % a[0]
                    else:
                        why = 'both start with %s and share qualifier %s' % (a[0], sorted(a[2] & b[2])[0])
                    self.out('same-pos', 'indistinguishable')
                    F.append((self.data(gn, 'pos %s|%s vs %s: %s' % (pos, grp[i].upath.rsplit('/', 1)[1], grp[j].upath.rsplit('/', 1)[1], why)),
                              'siblings at one position cannot be told apart by segment id and qualifier'))
            # the real matcher must agree with the reference on every qualifier code of every member
            impl = [self.c.impl['pkg'].get(id(x)) for x in grp]
            if any(n is None for n in impl) or any(s is None for s in sigs):
                self.counters['matcher probes skipped (map not loaded)'] += 1
                continue
            from mc import impl as seam
            for i, x in enumerate(grp):
                sid, where, codes = sigs[i]
                if not codes:
                    self.counters['same-position member without a qualifier code list (not probed)'] += 1
                    continue
                for code in sorted(codes):
                    parts, vals = probe_segment(sid, where, code)
                    if parts is None:
                        continue
                    self.n += 1
                    seg = seam.mkseg(parts)
                    exp = [j for j in range(len(grp)) if sigs[j][0] == sid and (sigs[j][2] is None or vals[sigs[j][1]] in sigs[j][2])]
                    try:
                        got = [j for j in range(len(grp)) if impl[j].is_match(seg)]
                    except Exception as e:
                        F.append(('C16|match|raises %s@%s' % (type(e).__name__, core.where(e)), 'is_match(%s) raised %r' % ('*'.join(parts), e)))
                        continue
                    self.out('match', len(exp), 'agree' if exp == got else 'disagree')
                    if exp != got:
                        kind = 'matches a sibling the qualifier excludes' if set(got) - set(exp) else 'does not match the node the qualifier selects'
                        F.append(('C16|match|%s|%s' % (where, kind),
                                  '%s %s: segment %s should match %s, is_match accepts %s' % (self.c.file, gn.upath, '*'.join(parts), [grp[j].upath for j in exp], [grp[j].upath for j in got])))

    # -- the trees pyx12 builds --------------------------------------------------------------------------
    def tree_checks(self, gn, F):
        c = self.c
        k = gkind(gn)
        want = gdump(gn)
        nodes = {}
        for m in MODES:
            n = c.impl[m].get(id(gn))
            if n is None:
                continue
            nodes[m] = n
            self.n += 1
            try:
                got = idump(n)
            except Exception as e:
                F.append(('C16|tree|%s|%s raises %s@%s' % (m, KINDNAME[k], type(e).__name__, core.where(e)), 'reading the node attributes raised %r' % (e,)))
                continue
            for a in want:
                if want[a] != got.get(a):
                    F.append(('C16|tree|%s|%s.%s differs from the map XML' % (m, KINDNAME[k], a),
                              '%s %s: %s is %r in the XML, %r in the loaded tree' % (c.file, gn.upath, a, want[a], got.get(a))))
            self.out('tree', m, k, 'same' if all(want[a] == got.get(a) for a in want) else 'differs')
        if len(nodes) == 2:
            self.n += 1
            try:
                d1, d2 = idump(nodes['pkg']), idump(nodes['dir'])
                p1, p2 = (nodes['pkg'].get_path(), nodes['dir'].get_path()) if k != 'root' else ('/', '/')
            except Exception:
                d1 = d2 = p1 = p2 = None
            if d1 != d2 or p1 != p2:
                a = [x for x in d1 if d1[x] != d2.get(x)] if d1 != d2 else ['get_path']
                F.append(('C16|tree|pkg-vs-dir|%s.%s differs' % (KINDNAME[k], a[0]), '%s %s: packaged %r, explicit directory %r' % (c.file, gn.upath, d1, d2)))
        for (m, g2, a, b) in c.struct:
            if g2 is gn:
                F.append(('C16|tree|%s|children of a %s differ from the map XML' % (m, KINDNAME[k]), '%s %s: XML order %s, loaded tree %s' % (c.file, gn.upath, a, b)))
        n = nodes.get('pkg')
        if n is None:
            return
        # limits as the walker reads them
        if k in ('loop', 'seg'):
            lim = ref_limit(gn.repeat if k == 'loop' else gn.max)
            if lim != 'bad':
                self.n += 1
                try:
                    got = n.get_max_repeat()
                except Exception as e:
                    got = 'raises %s@%s' % (type(e).__name__, core.where(e))
                exp = MAXINT if lim is None else lim
                if got != exp:
                    F.append(('C16|tree|%s.get_max_repeat|%s' % (KINDNAME[k], got if isinstance(got, str) else 'differs'),
                              '%s %s: limit text %r, get_max_repeat() gives %r' % (c.file, gn.upath, gn.repeat if k == 'loop' else gn.max, got)))
        # data element attributes and external set as the validator reads them
        if k in ('ele', 'sub') and gn.de in G.dataele():
            self.n += 1
            try:
                got = (n.data_type, n.min_len, n.max_len)
            except Exception as e:
                got = 'raises %s@%s' % (type(e).__name__, core.where(e))
            if got != G.dataele()[gn.de]:
                F.append(('C16|tree|element data type|%s' % (got if isinstance(got, str) else 'differs from dataele.xml'),
                          '%s %s: data element %s is %r, the element reports %r' % (c.file, gn.upath, gn.de, G.dataele()[gn.de], got)))
        if k in ('ele', 'sub') and gn.ext and gn.ext in G.extcodes():
            self.n += 1
            codes = G.extcodes()[gn.ext]
            try:
                got = n.root.ext_codes.isValid(gn.ext, codes[0]) if codes else True
            except Exception as e:
                got = 'raises %s@%s' % (type(e).__name__, core.where(e))
            if got is not True:
                F.append(('C16|tree|external code set|%s' % (got if isinstance(got, str) else 'member refused'),
                          '%s %s: external set %s, isValid(%r) gives %r' % (c.file, gn.upath, gn.ext, codes[0] if codes else None, got)))

    # -- addressing -----------------------------------------------------------------------------------------
    def shared_why(self, gn, others):
        k = gkind(gn)
        if not all(gkind(o) == k for o in others):
            return None
        segs = [seg_of(o) for o in others]
        if k in ('ele', 'sub'):
            if len(set(id(s) for s in segs)) == len(segs) and len(set((s.id, id(s.parent)) for s in segs)) == 1:
                return 'same path as the like-named %s of a same-id sibling segment' % KINDNAME[k]
        if k == 'comp':
            return 'reports its segment path followed by /, like every composite of a same-id segment in that loop'
        return None

    def address_checks(self, gn, F):
        c = self.c
        k = gkind(gn)
        n = c.impl['pkg'].get(id(gn))
        if n is None or k == 'root':
            return
        self.n += 1
        try:
            p = n.get_path()
        except Exception as e:
            F.append(('C16|get_path|%s|raises %s@%s' % (KINDNAME[k], type(e).__name__, core.where(e)), '%s %s: get_path() raised %r' % (c.file, gn.upath, e)))
            return
        anc = gn.parent
        while anc is not None and anc.kind != 'root':
            an = c.impl['pkg'].get(id(anc))
            if id(anc) in c.ambiguous or (an is not None and c.pathcount[an.get_path()] > 1 and anc.kind in ('loop', 'seg')):
                self.out('path', k, 'not judged: an enclosing node is not uniquely addressable')
                self.counters['addressing not judged below a loop/segment that is itself ambiguous or shares its path (reported there)'] += 1
                return
            anc = anc.parent
        if c.pathcount[p] > 1:
            others = c.pathnodes[p]
            why = self.shared_why(gn, others)
            self.out('path', k, 'shared')
            if why:
                key = 'C16|path-unique|%s|%s' % (KINDNAME[k], why)
            else:
                key = 'C16|path-unique|%s|%s|%s' % (KINDNAME[k], c.file, p)
            F.append((key, '%s: %d nodes report the path %s: %s' % (c.file, len(others), p, [o.upath for o in others][:4])))
            self.counters['fetch not attempted (reported path is not unique)'] += 1
            return
        self.out('path', k, 'unique')
        if id(gn) in c.ambiguous:
            # the sibling pair is reported as a data finding; the node still reports a unique path and must be fetched by it
            self.counters['fetch attempted although the node has an indistinguishable same-position sibling'] += 1
        fns = ['getnodebypath', 'getnodebypath2'] if k in ('loop', 'seg') else ['getnodebypath2']
        if k not in ('loop', 'seg'):
            self.counters['getnodebypath on element-level paths (not offered by the API, not asserted)'] += 1
        starts = [(c.trees['pkg'], p, 'absolute', n)]
        # the same file loaded the other way (explicit map directory) is a second, equal-looking map object in this process:
        # its nodes must be fetched from IT, not from the first object
        n2 = c.impl.get('dir', {}).get(id(gn)) if 'dir' in c.trees and not isinstance(c.trees.get('dir'), Failed) else None
        if n2 is not None:
            starts.append((c.trees['dir'], p, 'absolute, second load of the file', n2))
        if self.thorough:
            a = n.parent if k in ('loop', 'seg') else None
            if k in ('ele', 'comp'):
                a = n.parent.parent
            if k == 'sub':
                a = n.parent.parent.parent
            while a is not None and not a.is_map_root():
                ap = a.get_path()
                if p.startswith(ap + '/'):
                    starts.append((a, p[len(ap) + 1:], 'relative', n))
                a = a.parent
        for fn in fns:
            for start, sp, how, want_n in starts:
                self.n += 1
                try:
                    r = getattr(start, fn)(sp)
                    if r is want_n:
                        o = 'same'
                    elif r is None:
                        o = 'returns None'
                    else:
                        o = 'returns another node (%s)' % KINDNAME.get(ikind(r), '?')
                except Exception as e:
                    o = 'raises %s@%s' % (type(e).__name__, core.where(e))
                self.out('fetch', fn, k, how, o)
                if o != 'same':
                    if id(gn) in c.ambiguous:
                        # a member of a sibling pair the map cannot tell apart: keyed by file and path, so that the
                        # recorded consequences of the shipped ambiguities do not hide any other fetch failure
                        F.append(('C16|fetch|%s|%s|%s|%s|%s' % (fn, KINDNAME[k], c.file, p, o), '%s: %s(%r) (%s) for the %s %s: %s' % (c.file, fn, sp, how, KINDNAME[k], gn.upath, o)))
                    else:
                        F.append(('C16|fetch|%s|%s|%s' % (fn, KINDNAME[k], o), '%s: %s(%r) (%s) for the %s %s: %s' % (c.file, fn, sp, how, KINDNAME[k], gn.upath, o)))

    def node(self, gn):
        F = []
        self.data_checks(gn, F)
        self.tree_checks(gn, F)
        self.address_checks(gn, F)
        seen = set()
        out = []
        for k, m in F:
            if k not in seen:
                seen.add(k)
                out.append((k, m))
        return out


# ----- file level cases ---------------------------------------------------------------------------------
def load_case(fname):
    """the file loads both ways"""
    c = context(fname)
    F = []
    if not c.exists:
        return F, 'missing'
    if c.gerr is not None:
        F.append(('C16|data|%s|/|not readable by the reference reader (%s)' % (fname, c.gerr.name), c.gerr.text))
    o = []
    for m in MODES:
        t = c.trees[m]
        if isinstance(t, Failed):
            o.append('raises')
            F.append(('C16|load|%s|raises %s@%s' % (fname, t.name, t.where), 'load_map_file(%r, map_path=%s) raised %s' % (fname, 'None' if m == 'pkg' else 'explicit directory', t.text)))
        else:
            o.append('ok')
    if o[0] != o[1]:
        F.append(('C16|load|pkg-vs-dir|one way loads, the other does not', '%s: packaged %s, explicit directory %s' % (fname, o[0], o[1])))
    return F, '/'.join(o)


def order_case(fname):
    """raw XML pass: pos is an integer and does not decrease among loop/segment siblings in document order"""
    F = []
    n = 0
    try:
        r = et.parse(os.path.join(G.MAPDIR, fname)).getroot()
    except Exception as e:
        return [('C16|data|%s|/|XML does not parse (%s)' % (fname, type(e).__name__), repr(e))], 0

    def rec(e, path):
        nonlocal n
        last = None
        for ch in e:
            if ch.tag not in ('loop', 'segment'):
                continue
            n += 1
            p = G.g(ch, 'pos')
            if p is None or not re.match(r'^[0-9]+\Z', p):
                F.append(('C16|data|%s|%s|pos %r of %s is not an integer' % (fname, path or '/', p, ch.get('xid')), 'position must be an integer'))
            else:
                p = int(p)
                if last is not None and p < last[0]:
                    F.append(('C16|data|%s|%s|pos order: %s (pos %d) follows %s (pos %d)' % (fname, path or '/', ch.get('xid'), p, last[1], last[0]),
                              'positions decrease among siblings in document order'))
                last = (p, ch.get('xid'))
            if ch.tag == 'loop':
                rec(ch, path + '/' + str(ch.get('xid')))
    rec(r, '')
    return F, n


def reader_admits(icvn):
    import pyx12.rawx12file
    try:
        text = ref.isa(icvn=icvn) + 'IEA*0*000000001~'
    except AssertionError:
        return 'not expressible in an ISA'
    try:
        pyx12.rawx12file.RawX12File(io.StringIO(text))
        return True
    except Exception as e:
        return 'refused (%s@%s)' % (type(e).__name__, core.where(e))


def keystr(e):
    return '%s/%s/%s/%s' % (e[0], e[1] or '-', e[2] or '-', e[3] or '-')


def index_case(i):
    import pyx12.map_index
    idx = G.index()
    F = []
    outs = []
    n = 0
    if i >= len(idx):
        return F, outs, n
    e = idx[i]
    icvn, vriic, fic, tspc, fname, abbr = e
    ks = keystr(e)
    # file exists
    n += 1
    exists = bool(fname) and os.path.isfile(os.path.join(G.MAPDIR, fname))
    if not exists:
        F.append(('C16|index|%s|file %s missing' % (ks, fname), 'maps.xml names a file that is not in the map directory'))
    outs.append('index|file|%s' % ('exists' if exists else 'missing'))
    # version admitted by the reader
    n += 1
    adm = reader_admits(icvn)
    outs.append('index|version|%s' % ('admitted' if adm is True else 'refused'))
    if adm is not True:
        F.append(('C16|index|%s|icvn %s %s' % (ks, icvn, adm), 'no document with ISA12=%s can be opened, the entry cannot be selected' % icvn))
    # key unambiguous
    n += 1
    same = [x for j, x in enumerate(idx) if j != i and x[:3] == e[:3]]
    amb = [x for x in same if not tspc or not x[3] or x[3] == tspc]
    outs.append('index|key|%s' % ('ambiguous' if amb else ('unique with tspc' if same else 'unique')))
    if amb:
        F.append(('C16|index|%s|key also selects %s' % (ks, amb[0][4]), 'two index entries answer one (icvn, vriic, fic, tspc) lookup'))
    # the lookup itself, both ways of locating maps.xml
    for m in MODES:
        n += 1
        try:
            mi = pyx12.map_index.map_index(None if m == 'pkg' else explicit_dir())
            got = mi.get_filename(icvn, vriic, fic, tspc) if tspc else mi.get_filename(icvn, vriic, fic)
            abbr_got = mi.get_abbr(icvn, vriic, fic, tspc) if tspc else mi.get_abbr(icvn, vriic, fic)
            listed = [(a['icvn'], a['vriic'], a['fic'], a['tspc'], a['map_file'], a['abbr']) for a in mi.maps]
        except Exception as ex:
            F.append(('C16|index-impl|%s|raises %s@%s' % (m, type(ex).__name__, core.where(ex)), repr(ex)))
            continue
        if listed != idx:
            F.append(('C16|index-impl|%s|entries differ from maps.xml' % m, 'map_index.maps is not the list of entries in maps.xml (first difference: %r)'
                      % (next(((a, b) for a, b in zip(listed, idx) if a != b), (len(listed), len(idx))),)))
        if not amb and (got != fname or abbr_got != abbr):
            F.append(('C16|index-impl|%s|get_filename returns another entry' % m, 'get_filename%r = %r, the entry names %r' % ((icvn, vriic, fic, tspc), got, fname)))
        outs.append('index|lookup|%s|%s' % (m, 'own file' if got == fname else 'other'))
    # the selected map admits the key in GS08 / ST03
    if vriic and exists:
        c = context(fname)
        if c.g is None:
            outs.append('index|gs08|map unreadable')
        else:
            for path, pos, label in (('/ISA_LOOP/GS_LOOP/GS', 8, 'GS08'), ('/ISA_LOOP/GS_LOOP/ST_LOOP/ST', 3, 'ST03')):
                seg = [x for x in G.walk(c.g) if x.kind == 'seg' and x.path == path]
                el = None
                if len(seg) == 1:
                    el = next((x for x in gkids(seg[0]) if x.seq == pos and x.kind == 'ele'), None)
                if el is None or not el.codes or el.usage == 'N':
                    outs.append('index|%s|no code list' % label)
                    continue
                n += 1
                ok = vriic in el.codes
                outs.append('index|%s|%s' % (label, 'contains key' if ok else 'lacks key'))
                if not ok:
                    F.append(('C16|index|%s|%s code list of %s lacks the vriic' % (ks, label, fname),
                              'the index sends (%s, %s) documents to %s, whose %s list %s rejects that value' % (vriic, fic, fname, label, el.codes[:4])))
    return F, outs, n


def tables_case():
    import pyx12.dataele, pyx12.codes
    F = []
    n = 0
    for m in MODES:
        base = None if m == 'pkg' else explicit_dir()
        n += 1
        try:
            d = pyx12.dataele.DataElements(base)
            got = dict((k, (v['data_type'], v['min_len'], v['max_len'])) for k, v in d.dataele.items())
        except Exception as e:
            F.append(('C16|tables|dataele|%s|raises %s@%s' % (m, type(e).__name__, core.where(e)), repr(e)))
            got = None
        if got is not None and got != G.dataele():
            diff = sorted(set(got.items()) ^ set(G.dataele().items()))[:3]
            F.append(('C16|tables|dataele|%s|differs from dataele.xml' % m, 'first differences %r' % (diff,)))
        n += 1
        try:
            x = pyx12.codes.ExternalCodes(base, None)
            got = dict((k, list(v['codes'])) for k, v in x.codes.items())
        except Exception as e:
            F.append(('C16|tables|codes|%s|raises %s@%s' % (m, type(e).__name__, core.where(e)), repr(e)))
            got = None
        if got is not None and got != G.extcodes():
            diff = sorted(set(got) ^ set(G.extcodes())) or sorted(k for k in got if got[k] != G.extcodes()[k])
            F.append(('C16|tables|codes|%s|differs from codes.xml' % m, 'first differences %r' % (diff[:3],)))
    return F, n


# ----- evaluate / work / run --------------------------------------------------------------------------------
def evaluate(case):
    op = case['op']
    if op == 'index':
        idx = G.index()
        if case['i'] >= len(idx) or keystr(idx[case['i']]) != case.get('key', keystr(idx[case['i']])):
            return []
        return index_case(case['i'])[0]
    if op == 'tables':
        return tables_case()[0]
    if op == 'load':
        return load_case(case['file'])[0]
    if op == 'order':
        return order_case(case['file'])[0]
    if op == 'node':
        c = context(case['file'])
        if c.g is None:
            return []
        gn = locate(c, case['ip'])
        if gn is None:
            return []
        return Checker(c, bool(case.get('thorough'))).node(gn)
    return []


def work(shard):
    P = core.Part()
    kind = shard[0]
    if kind == 'index':
        for i in shard[1]:
            e = G.index()[i]
            F, outs, n = index_case(i)
            P.n += n
            for o in outs:
                P.out(o)
            case = {'op': 'index', 'i': i, 'key': keystr(e)}
            for k, m in F:
                P.bad(k, case, m)
            P.sample({'index entry': keystr(e), 'file': e[4], 'findings': len(F)}, cap=1)
    elif kind == 'tables':
        F, n = tables_case()
        P.n += n
        P.out('tables|%s' % ('same' if not F else 'differ'))
        for k, m in F:
            P.bad(k, {'op': 'tables'}, m)
    elif kind == 'file':
        fname, thorough = shard[1], shard[2]
        F, o = load_case(fname)
        P.n += 2
        P.out('load|%s' % o)
        for k, m in F:
            P.bad(k, {'op': 'load', 'file': fname}, m)
        if o == 'missing':
            return P
        F, n = order_case(fname)
        P.n += n
        P.out('order|%s' % ('non-decreasing' if not F else 'decreases'))
        for k, m in F:
            P.bad(k, {'op': 'order', 'file': fname}, m)
        c = context(fname)
        if c.g is None:
            return P
        ch = Checker(c, thorough)
        nodes = 0
        for gn in G.walk(c.g):
            nodes += 1
            F = ch.node(gn)
            if F:
                case = {'op': 'node', 'file': fname, 'ip': ipath(gn), 'node': gn.upath, 'thorough': thorough}
                for k, m in F:
                    P.bad(k, case, m)
        P.n += ch.n
        P.outcomes |= ch.outs
        P.counters.update(ch.counters)
        P.counters['nodes'] += nodes
        P.counters['files'] += 1
        P.states += nodes
        P.transitions += ch.n
        P.sample({'file': fname, 'nodes': nodes, 'checks': ch.n, 'loaded': o}, cap=1)
    return P


def run(R):
    files = all_files()
    nidx = len(G.index())
    # big files first so the pool drains evenly
    files.sort(key=lambda f: -os.path.getsize(os.path.join(G.MAPDIR, f)) if os.path.isfile(os.path.join(G.MAPDIR, f)) else 0)
    shards = [('file', f, R.thorough) for f in files] + [('index', ch) for ch in core.chunks(range(nidx), 4)] + [('tables',)]
    R.bounds = {'index entries': nidx, 'map files': len(files), 'files named by the index': len(indexed_files()),
                'locating modes': list(MODES),
                'nodes': 'every loop, segment, element, composite and sub-element of every file',
                'lookups': 'absolute path from the map root' + (' and the relative path from every enclosing loop' if R.thorough else ''),
                'matcher probes': 'every qualifier code of every member of every same-position sibling group'}
    R.assumptions = ['mc.grammar (xml.etree, no pyx12 import) reads the map XML, dataele.xml, codes.xml and maps.xml correctly; it is the expected side',
                     'the qualifier of a segment is the element mc.grammar.qual_ele names (coded ID first element, ENT02, first component of a leading composite, HL03)',
                     'an absent repeat/max_use is not judged; getnodebypath (XPath style) is asserted for loops and segments only, getnodebypath2 for every kind',
                     'fetch-by-own-path is asserted only for nodes whose reported path is unique in the map (a shared path is reported once, as a uniqueness finding)',
                     'GS08/ST03 membership is asserted only where the selected map gives that element a code list and does not mark it not-used']
    R.pmap(work, shards)
    R.bounds['nodes walked'] = R.total.counters.get('nodes', 0)
    R.bounds['files walked'] = R.total.counters.get('files', 0)
    return R.finish(LEVEL, 'complete walk of the shipped configuration; an outcome is distinct by (check, node kind, result class)',
                    exhaustive=True)
