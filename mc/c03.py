"""
C03 - every single injected fault is rejected and localised.
E3 fault enumeration: for every element / composite / segment / loop node of every selectable map, a small
conformant carrier document (two transaction sets; the second one minimal) receives exactly one fault of
every applicable kind of the catalogue; oracle = predicted (segment position, element position, code,
offending value) in the error tree and in the AK3/AK4 (IK3/IK4) lines, nothing else for non-structural
kinds, and the sibling set still accepted.
"""
import copy
from mc import core, gen, grammar as G, c02

ID = 'C03'
LEVEL = 'fault_enumeration'

ENVELOPE = ('ISA', 'GS', 'ST', 'SE', 'GE', 'IEA')


# ----- applicability ----------------------------------------------------------------------------
def is_qualifier(seg, e):
    q, where = G.qual_ele(seg)
    return q is e


def reader_checked(seg, c):
    """elements the reader / map selection also interpret (envelope numbering)"""
    if seg.id in ENVELOPE:
        return True
    if seg.id == 'HL' and c.seq in (1, 2):
        return True
    if seg.id == 'LX' and c.seq == 1:
        return True
    if seg.id == 'BHT' and c.seq == 2:
        return True
    return False


def in_syntax(seg, seq):
    for t in seg.syntax:
        k, idx = G.syntax_parts(t)
        if seq in idx:
            return True
    return False


def dt_context(seg, parent_children, e):
    """is this a 1251 element governed by a 1250 qualifier (its format depends on the qualifier)?"""
    if e.de != '1251':
        return False
    for x in parent_children:
        if x is e:
            return False
        if getattr(x, 'de', None) == '1250':
            return True
    return False


def ele_faults(seg, e, sub_of=None):
    """[(kind, value, expected code or None for 'some error', structural?)] for element node e"""
    de = G.dataele().get(e.de)
    if de is None:
        return []
    dt, mn, mx = de
    sibs = sub_of.children if sub_of is not None else seg.children
    out = []
    if e.usage == 'N':
        out.append(('not-used-filled', 'A' * max(mn, 1) if dt in ('AN', 'ID') else '1' * max(mn, 1), None,
                    sub_of is None and in_syntax(seg, e.seq)))
        return out
    coded = bool(e.codes) or bool(e.ext)
    dtx = dt_context(seg, sibs, e)
    if not coded and not dtx and not e.regex:
        if dt in ('AN', 'ID'):
            out.append(('too-long', 'A' * (mx + 1), '5', False))
            if dt == 'AN' and mx >= 3:
                # punctuation counts towards the length of a string (it does not for numbers)
                out.append(('too-long-punctuated', ('A-.' * (mx + 1))[:mx + 1], '5', False))
            if mn > 1:
                out.append(('too-short', 'A' * (mn - 1), '4', False))
            out.append(('wrong-class', ('A\x7f' + 'A' * mx)[:max(mn, 2)] if mx >= 2 else '\x7f', '6', False))
            # a printable character outside the character set of the interchange's version: ^ belongs to the extended set
            # of 00501 only (injected into 00401 documents only, see cases_for_entry)
            out.append(('wrong-class-printable', ('A^' + 'A' * mx)[:max(mn, 2)] if mx >= 2 else '^', '6', False))
        elif dt == 'R' or dt[0] == 'N':
            out.append(('too-long', '1' * (mx + 1), '5', False))
            if dt == 'R':
                out.append(('too-long-signed', '-' + '1' * mx + '.1', '5', False))     # mx + 1 digits; sign and point do not count
            if mn > 1:
                out.append(('too-short', '1' * (mn - 1), '4', False))
            out.append(('wrong-class', ('A' * mx)[:max(mn, 1)], '6', False))
        elif dt == 'DT':
            for L, v, v2, v3 in ((8, '20041301', '20040230', '20040100'), (6, '041301', '040230', '040100')):
                if mn <= L <= mx:
                    out.append(('impossible-date', v, '8', False))           # month out of range
                    out.append(('impossible-date-day', v2, '8', False))      # day the month does not have
                    out.append(('impossible-date-day-zero', v3, '8', False))  # day 00: below the range, not above it
                    break
        elif dt == 'TM':
            for L in (4, 6, 8):
                if mn <= L <= mx:
                    # each field out of range on its own: the others are valid
                    out.append(('impossible-time', ('2500' + '0000')[:L], '9', False))
                    out.append(('impossible-time-minute', ('1260' + '0000')[:L], '9', False))
                    if L >= 6:
                        out.append(('impossible-time-second', ('120060' + '00')[:L], '9', False))
                    break
    if dtx and not coded:
        out.append(('impossible-date', None, '8', False))      # value chosen from the carrier's qualifier
    if e.codes and not e.ext:
        v = None
        rivals = gen.rival_codes(seg) if is_qualifier(seg, e) else ()
        for cand in ('Z', 'Q', 'X9', 'ZZ', 'QQ', 'ZZZ', 'QQQ', 'ZZZZ', 'ZZZZZ', 'ZZZZZZ', 'Q7', 'Z8Z'):
            # a qualifier must not become the qualifier of a same-id sibling node: that would be another, valid, segment
            if mn <= len(cand) <= mx and cand not in e.codes and cand not in rivals:
                v = cand
                break
        if v is not None and dt in ('ID', 'AN'):
            out.append(('outside-code-list', v, '7', is_qualifier(seg, e)))
        # another spelling of a listed code is not the listed code (codes are compared as written)
        low = [c.lower() for c in sorted(e.codes) if c.lower() != c and c.lower() not in e.codes and c.lower() not in rivals]
        if low and dt in ('ID', 'AN') and not is_qualifier(seg, e):
            out.append(('outside-code-list-case', low[0], '7', False))
    if e.ext and not e.codes:
        members = set(G.extcodes().get(e.ext, []))
        for cand in ('Z', 'Q', 'X9', 'ZZ', 'QQ', 'ZZZ', 'QQQ', 'ZZZZ', 'ZZZZZ', 'ZZZZZZ', 'ZZZZZZZ', 'ZZZZZZZZZ'):
            if mn <= len(cand) <= mx and cand not in members and members and dt in ('ID', 'AN'):
                # also run with every OTHER external code set switched off (exclude_external_codes): this one stays on
                out.append(('outside-external-set', cand, '7', is_qualifier(seg, e)))
                break
    if e.usage == 'R':
        struct = is_qualifier(seg, e)
        first_of_S_comp = sub_of is not None and e.seq == 1 and sub_of.usage != 'R'
        if not first_of_S_comp:
            out.append(('missing-required', '', '1', struct))
    return out


# ----- carriers ------------------------------------------------------------------------------------
def carrier(entry, seg, fill=None):
    root = G.load(entry[4])
    plan = {'include': {'#%d' % G.segments(root).index(seg)}, 'sets': 2}
    if fill:
        plan['fill'] = {fill}
        # a governed Date Time Period needs its format qualifier beside it
        sibs = seg.children if len(fill) == 2 else [c for c in seg.children if c.seq == fill[1]][0].children
        tgt = [x for x in sibs if x.seq == fill[-1]]
        if tgt and getattr(tgt[0], 'de', None) == '1251':
            for x in sibs:
                if getattr(x, 'de', None) == '1250' and x.seq < fill[-1] and x.usage != 'N':
                    plan['fill'].add(fill[:-1] + (x.seq,))
    d = gen.build(entry, plan)
    if gen.selfcheck(d):
        raise gen.Ungeneratable('ambiguous carrier')
    idx = [i for i, n in enumerate(d.nodes) if n is seg]
    if not idx:
        raise gen.Ungeneratable('carrier lacks the target')
    d.base_text = d.text(eol='\n')
    return d, idx[0]


def set_pos(d, i):
    """(set index, position of segment i within its set; ST = 1)"""
    s = -1; c = 0
    for k in range(i + 1):
        if d.segs[k][0] == 'ST':
            s += 1; c = 1
        elif d.segs[k][0] not in ENVELOPE:
            c += 1
        elif d.segs[k][0] == 'SE':
            c += 1
    return s, c


def fix_counts(d):
    st = None; n = 0
    for s in d.segs:
        if s[0] == 'ST':
            n = 1
        elif s[0] == 'SE':
            n += 1
            s[1] = str(n)
        elif s[0] not in ENVELOPE:
            n += 1


# ----- oracle ----------------------------------------------------------------------------------------
def observe(d, text=None, exclude=None):
    from mc import pipe
    pipe.stub_clock()
    return pipe.run(text if text is not None else d.text(eol='\n'), sinks=('ack',), exclude=exclude)


def _ack_copy(v):
    """the copy of an offending value in AK404 / IK404: X12 has no escape mechanism, so the characters the acknowledgement
    itself is written with (~ * : and the repetition separator ^) cannot be carried and are left out"""
    return ''.join(c for c in v if c not in '~*:^\r\n')


def judge(o, d, exp, structural, tag, f):
    """exp = dict(level, code (or None), seg_id, pos, ele, sub, value (or None))"""
    v = []
    if o.exc:
        return [('C03|%s|raises %s@%s' % (tag, o.exc, o.exc_where), 'injection raised %r' % o.exc_obj)]
    if o.verdict is not False:
        v.append(('C03|%s|verdict-not-false' % tag, 'verdict %r after injection %r' % (o.verdict, exp)))
    errs = o.errors or []

    def hit(er):
        if er[0] != exp['level'] or er[4] != 0:
            return False
        if exp['code'] is not None and er[1] != exp['code']:
            return False
        if exp.get('seg_id') and er[5] != exp['seg_id']:
            return False
        if er[6] != exp['pos']:
            return False
        if exp['level'] == 'ele':
            if er[7] != exp['ele']:
                return False
            if exp.get('sub') and er[8] != exp['sub']:
                return False
        return True
    hits = [e for e in errs if hit(e)]
    if not hits:
        near = [e for e in errs if e[4] == 0 and e[6] == exp['pos']]
        kind = 'wrong-code-or-element' if near else 'not-localised'
        if near:
            n0 = near[0]
            kind += ' got=%s/%s%s' % (n0[0], n0[1], '@other-element' if exp['level'] == 'ele' and n0[7] and n0[1] == exp['code'] else '')
        else:
            same = [e for e in errs if e[4] == 0 and e[1] == exp['code'] and e[0] == exp['level']]
            if same:
                kind += ' got=%s' % ('previous-position' if (same[0][6] or 0) == exp['pos'] - 1 else 'other-position')
        if structural and near:
            pass
        else:
            v.append(('C03|%s|%s' % (tag, kind), 'expected %r; errors reported: %r' % (exp, errs[:5])))
    else:
        if exp.get('value') is not None and exp['code'] in ('4', '5', '6', '7', '8', '9'):
            if not any(h[9] == exp['value'] for h in hits):
                v.append(('C03|%s|offending-value' % tag, 'expected value %r, error says %r' % (exp['value'], hits[0][9])))
    if not structural:
        others = [e for e in errs if not hit(e)]
        if others and hits:
            v.append(('C03|%s|extra-errors' % tag, 'besides %r also reported %r' % (hits[0], others[:4])))
    # acknowledgement
    if o.ack and hits and not v:
        from mc import pipe
        segs = pipe.ack_segments(o.ack)
        a3 = 'AK3' if any(s[0] == 'AK3' for s in segs) else 'IK3'
        a4 = 'AK4' if a3 == 'AK3' else 'IK4'
        a5 = 'AK5' if a3 == 'AK3' else 'IK5'
        sets = []
        for s in segs:
            if s[0] == 'AK2':
                sets.append([])
            elif sets is not None and sets and s[0] in (a3, a4, a5):
                sets[-1].append(s)
        if len(sets) >= 1:
            cur3 = None; found = False
            for s in sets[0]:
                if s[0] == a3:
                    cur3 = s
                    if exp['level'] == 'seg' and len(s) > 4 and s[1] == hits[0][5] and s[2] == str(exp['pos']) and exp['code'] in ('1', '2', '3', '4', '5', '6', '7', '8') and s[4] == exp['code']:
                        found = True
                elif s[0] == a4 and exp['level'] == 'ele' and cur3 is not None and cur3[2] == str(exp['pos']):
                    p = s[1].split(':')
                    code = hits[0][1]
                    if p[0] == str(exp['ele']) and (not exp.get('sub') or (len(p) > 1 and p[1] == str(exp['sub']))) and len(s) > 3 and s[3] == code:
                        if exp.get('value') is None or code not in ('4', '5', '6', '7', '8', '9') or '*'.join(s[4:]) == _ack_copy(exp['value']):
                            found = True
            if not found:
                v.append(('C03|%s|ack-does-not-itemise' % tag, 'no %s/%s line for %r in %r' % (a3, a4, exp, ['*'.join(s) for s in sets[0]])))
            if not structural and len(sets) > 1:
                k5 = [s for s in sets[1] if s[0] == a5]
                if not k5 or k5[0][1] != 'A':
                    v.append(('C03|%s|sibling-set-not-accepted' % tag, 'second set: %r' % (['*'.join(s) for s in sets[1]])))
    return v


# ----- injections -------------------------------------------------------------------------------------
def inject_ele(entry, gseg, seq, subseq, kind, value):
    """-> (doc, exp, structural) or raises Ungeneratable"""
    c = [x for x in gseg.children if x.seq == seq][0]
    e = c if subseq is None else [x for x in c.children if x.seq == subseq][0]
    fill = None
    if kind != 'not-used-filled':
        fill = (gseg.path, seq) if subseq is None else (gseg.path, seq, subseq)
    elif subseq is not None and c.usage != 'N':
        # need the composite present through another component
        others = [x for x in c.children if x.usage != 'N']
        if not others:
            raise gen.Ungeneratable('no usable component')
        fill = (gseg.path, seq, others[0].seq)
    d, i = carrier(entry, gseg, fill)
    s = d.segs[i]
    while len(s) <= seq:
        s.append('')
    faults = dict((k, (val, code, st)) for (k, val, code, st) in ele_faults(gseg, e, c if subseq is not None else None))
    val, code, structural = faults[kind]
    if kind == 'impossible-date' and val is None:
        cur = s[seq] if subseq is None else (s[seq][subseq - 1] if isinstance(s[seq], list) and len(s[seq]) >= subseq else '')
        if cur == '' or '-' in cur and len(cur) != 17:
            raise gen.Ungeneratable('no governed date value in carrier')
        if len(cur) == 8: val = '20041301'
        elif len(cur) == 17: val = '20041301-20040103'
        elif len(cur) == 6: val = '041301'
        elif len(cur) == 12: val = '200413011200'
        elif len(cur) == 4:
            val = '2561'; code = '9'
        else:
            raise gen.Ungeneratable('date shape')
    if subseq is None:
        if kind == 'missing-required' and isinstance(s[seq], list):
            s[seq] = ''
        elif isinstance(s[seq], list):
            raise gen.Ungeneratable('composite target')
        else:
            if kind != 'missing-required' and kind != 'not-used-filled' and s[seq] == '':
                raise gen.Ungeneratable('carrier left the element empty')
            s[seq] = val
    else:
        if not isinstance(s[seq], list):
            if kind == 'not-used-filled' and c.usage == 'N':
                s[seq] = [''] * len(c.children)
            else:
                raise gen.Ungeneratable('composite absent in carrier')
        while len(s[seq]) < subseq:
            s[seq].append('')
        s[seq][subseq - 1] = val
        if all(x == '' for x in s[seq]):
            raise gen.Ungeneratable('composite would vanish')
    # the statement's "exactly one violation": blanking must not break a syntax note or starve the segment
    if kind == 'missing-required':
        if subseq is None and in_syntax(gseg, seq):
            structural = True
        if not any(gen.present(s[1:], k + 1) for k in range(len(s) - 1)):
            raise gen.Ungeneratable('segment would be empty')
    st, pos = set_pos(d, i)
    exp = {'level': 'ele', 'code': code, 'seg_id': gseg.id, 'pos': pos, 'ele': seq, 'sub': subseq, 'value': val if kind not in ('missing-required', 'not-used-filled') else None}
    if kind == 'outside-external-set':
        exp['ext'] = e.ext
    return d, exp, structural


def inject_seg(entry, gseg, kind):
    if kind == 'too-many-elements':
        d, i = carrier(entry, gseg)
        s = d.segs[i]
        n = len(gseg.children)
        while len(s) <= n:
            s.append('')
        s.append('A')
        st, pos = set_pos(d, i)
        return d, {'level': 'ele', 'code': '3', 'seg_id': gseg.id, 'pos': pos, 'ele': n + 1, 'sub': None, 'value': None}, False
    if kind.startswith('syntax:'):
        text = kind.split(':', 1)[1]
        t, idx = G.syntax_parts(text)
        d, i = carrier(entry, gseg)
        s = d.segs[i]
        while len(s) <= max(idx):
            s.append('')

        def put(p):
            c = gseg.children[p - 1]
            if c.usage == 'N':
                raise gen.Ungeneratable('syntax member not used')
            if c.kind == 'ele':
                s[p] = gen.ele_value(c, gseg, {}, None)
            else:
                sub = [''] * len(c.children)
                for k, x in enumerate(c.children):
                    if x.usage == 'R' or k == 0:
                        sub[k] = gen.ele_value(x, gseg, {}, None)
                s[p] = sub

        def clear(p):
            if gseg.children[p - 1].usage == 'R':
                raise gen.Ungeneratable('syntax member required')
            s[p] = ''
        if t == 'P':
            put(idx[0]); clear(idx[1])
        elif t == 'R':
            for p in idx: clear(p)
        elif t == 'E':
            put(idx[0]); put(idx[1])
        elif t == 'C':
            put(idx[0]); clear(idx[1])
        elif t == 'L':
            put(idx[0])
            for p in idx[1:]: clear(p)
        gen.fix_dates(gseg, s[1:]) if False else None
        # other notes of the segment must stay satisfied, else it is not a single fault
        for other in gseg.syntax:
            if other == text:
                continue
            t2, idx2 = G.syntax_parts(other)
            pr = [gen.present(s[1:], p) for p in idx2]
            bad = (t2 == 'P' and any(pr) and not all(pr)) or (t2 == 'R' and not any(pr)) or (t2 == 'E' and sum(pr) > 1) or \
                  (t2 == 'C' and pr[0] and not all(pr[1:])) or (t2 == 'L' and pr[0] and not any(pr[1:]))
            if bad:
                raise gen.Ungeneratable('second note would break')
        if not any(gen.present(s[1:], k + 1) for k in range(len(s) - 1)):
            raise gen.Ungeneratable('segment would be empty')
        st, pos = set_pos(d, i)
        return d, {'level': 'ele', 'code': '10' if t == 'E' else '2', 'seg_id': gseg.id, 'pos': pos, 'ele': idx, 'sub': None, 'value': None}, False
    if kind in ('unknown-id', 'unknown-id-malformed'):
        # an identifier no map knows; the malformed one (four characters) is also refused by the reader itself
        sid = 'ZZZ' if kind == 'unknown-id' else 'ZZZZ'
        d, i = carrier(entry, gseg)
        d.segs.insert(i + 1, [sid, 'A']); d.nodes.insert(i + 1, None)
        fix_counts(d)
        st, pos = set_pos(d, i + 1)
        return d, {'level': 'seg', 'code': '1', 'seg_id': sid, 'pos': pos}, False
    if kind == 'missing-required-segment':
        d, i = carrier(entry, gseg)
        lp = d.lpaths[i]
        del d.segs[i]; del d.nodes[i]; del d.lpaths[i]
        fix_counts(d)
        j = i
        # same-position siblings may come in any order: the walker can only notice when the position is left
        while j < len(d.nodes) and d.nodes[j] is not None and d.nodes[j].parent is gseg.parent and d.nodes[j].pos == gseg.pos and d.lpaths[j] == lp:
            j += 1
        st, pos = set_pos(d, j)
        exp = {'level': 'seg', 'code': '3', 'seg_id': gseg.id, 'pos': pos}
        if j < len(d.segs) and d.segs[j][0] == 'SE':
            # the suite's expected 997s pin that an error noticed at SE carries the count of the last body segment
            exp['pos'] = pos - 1
        return d, exp, False
    if kind == 'beyond-max-use':
        m = G.maxrep(gseg)
        d = gen.build(entry, {'include': {gseg.path}, 'repeat': {gseg.path: m}, 'sets': 2})
        if gen.selfcheck(d):
            raise gen.Ungeneratable('ambiguous carrier')
        d.base_text = d.text(eol='\n')
        idx = [k for k, n in enumerate(d.nodes) if n is gseg and k < len(d.nodes)]
        first_set = [k for k in idx if set_pos(d, k)[0] == 0]
        last = first_set[-1]
        d.segs.insert(last + 1, copy.deepcopy(d.segs[last])); d.nodes.insert(last + 1, gseg)
        fix_counts(d)
        st, pos = set_pos(d, last + 1)
        return d, {'level': 'seg', 'code': '5', 'seg_id': gseg.id, 'pos': pos}, False
    if kind == 'not-used-segment':
        # put the segment where its position says, in the carrier of its parent loop
        par = gseg.parent
        sib = [c for c in par.children if c.kind == 'seg' and c.usage != 'N' and c.pos <= gseg.pos]
        if not sib:
            raise gen.Ungeneratable('no anchor')
        anchor = sib[-1]
        d, i = carrier(entry, anchor)
        forced = copy.copy(gseg); forced.usage = 'S'
        vals = gen.mkseg(forced, {})
        d.segs.insert(i + 1, vals); d.nodes.insert(i + 1, gseg)
        fix_counts(d)
        st, pos = set_pos(d, i + 1)
        return d, {'level': 'seg', 'code': '2', 'seg_id': gseg.id, 'pos': pos}, True
    raise ValueError(kind)


def inject_loop(entry, gloop, kind):
    if kind == 'beyond-repeat':
        m = G.maxrep(gloop)
        plan = {'include': {gloop.path}, 'repeat': {gloop.path: m + 1}, 'sets': 2, 'overflow': True}
        d = gen.build(entry, plan)
        if gen.selfcheck(d):
            raise gen.Ungeneratable('ambiguous carrier')
        first = gloop.children[0]
        idx = [k for k, n in enumerate(d.nodes) if n is first and set_pos(d, k)[0] == 0]
        if len(idx) < m + 1:
            raise gen.Ungeneratable('instances')
        st, pos = set_pos(d, idx[m])
        return d, {'level': 'seg', 'code': '4', 'seg_id': first.id, 'pos': pos}, False
    if kind == 'beyond-repeat-interleaved':
        # A, B x max, A, B: the surplus instance of B arrives after a second instance of a same-position sibling loop A
        m = G.maxrep(gloop)
        A = interleave_partner(gloop)
        if A is None:
            raise gen.Ungeneratable('no same-position sibling loop that may repeat')
        d = gen.build(entry, {'include': {gloop.path, A.path}, 'repeat': {gloop.path: m + 1, A.path: 2}, 'sets': 2, 'overflow': True})
        if gen.selfcheck(d):
            raise gen.Ungeneratable('ambiguous carrier')

        def blocks(path):
            out = {}
            for k, lp in enumerate(d.lpaths):
                if set_pos(d, k)[0] != 0:
                    continue
                for (p_, inst) in lp:
                    if p_ == path:
                        out.setdefault(inst, []).append(k)
            return [out[i] for i in sorted(out)]
        bA, bB = blocks(A.path), blocks(gloop.path)
        if len(bA) != 2 or len(bB) != m + 1:
            raise gen.Ungeneratable('instances')
        allk = sorted(k for b in bA + bB for k in b)
        if allk != list(range(allk[0], allk[-1] + 1)) or any(b != list(range(b[0], b[-1] + 1)) for b in bA + bB):
            raise gen.Ungeneratable('instances not contiguous')
        order = [bA[0]] + bB[:m] + [bA[1]] + [bB[m]]
        idx = [k for b in order for k in b]
        lo = allk[0]
        segs = [d.segs[k] for k in idx]; nodes = [d.nodes[k] for k in idx]; lps = [d.lpaths[k] for k in idx]
        d.segs[lo:lo + len(idx)] = segs; d.nodes[lo:lo + len(idx)] = nodes; d.lpaths[lo:lo + len(idx)] = lps
        fix_counts(d)
        j = lo + sum(len(b) for b in order[:-1])
        # the carrier without the surplus instance must itself be accepted (else the interleaving is a C02 matter)
        d0 = gen.Doc(); d0.segs = [list(x) for x in d.segs[:j] + d.segs[j + len(bB[m]):]]; d0.nodes = d.nodes[:j] + d.nodes[j + len(bB[m]):]; d0.lpaths = d.lpaths[:j] + d.lpaths[j + len(bB[m]):]
        fix_counts(d0)
        d.base_text = d0.text(eol='\n')
        st, pos = set_pos(d, j)
        return d, {'level': 'seg', 'code': '4', 'seg_id': gloop.children[0].id, 'pos': pos}, False
    if kind == 'missing-required-loop':
        first = gloop.children[0]
        root = G.load(entry[4])
        d = gen.build(entry, {'include': {'#%d' % G.segments(root).index(first)}, 'sets': 2})
        if gen.selfcheck(d):
            raise gen.Ungeneratable('ambiguous carrier')
        d.base_text = d.text(eol='\n')
        inst = None
        idx = []
        for k, lp in enumerate(d.lpaths):
            if set_pos(d, k)[0] != 0:
                continue
            hit = [x for x in lp if x[0] == gloop.path]
            if hit:
                if inst is None:
                    inst = hit[0]
                if hit[0] == inst:
                    idx.append(k)
        if not idx or idx != list(range(idx[0], idx[-1] + 1)):
            raise gen.Ungeneratable('loop instance not contiguous')
        del d.segs[idx[0]:idx[-1] + 1]; del d.nodes[idx[0]:idx[-1] + 1]; del d.lpaths[idx[0]:idx[-1] + 1]
        fix_counts(d)
        j = idx[0]
        st, pos = set_pos(d, j)
        exp = {'level': 'seg', 'code': '3', 'seg_id': first.id, 'pos': pos}
        if j < len(d.segs) and d.segs[j][0] == 'SE':
            exp['pos'] = pos - 1
        return d, exp, True
    raise ValueError(kind)


# ----- case evaluation --------------------------------------------------------------------------------
def run_case(case):
    entry = tuple(case['entry'])
    root = G.load(entry[4])
    node = G.segments(root)[case['ord']] if 'ord' in case else gen.find(root, case['path'])
    kind = case['kind']
    tag = kind.split(':')[0]
    try:
        if case['what'] == 'ele':
            d, exp, structural = inject_ele(entry, node, case['seq'], case.get('sub'), kind, None)
        elif case['what'] == 'seg':
            d, exp, structural = inject_seg(entry, node, kind)
        else:
            d, exp, structural = inject_loop(entry, node, kind)
    except gen.Ungeneratable as e:
        return None, 'ungeneratable: %s' % str(e).split(' at ')[0][:40]
    o = observe(d)
    res = _judge_all(o, d, exp, structural, tag, entry)
    if not res and tag == 'outside-external-set':
        # the same fault with all other external code sets excluded by option: the verdict on this element must not change
        others = sorted(k for k in G.extcodes())
        mine = exp.get('ext')
        others = [k for k in others if k != mine]
        o2 = observe(d, exclude=','.join(others))
        res = [(k.replace('C03|outside-external-set|', 'C03|outside-external-set|other sets excluded|'), m + ' [exclude_external_codes=%s]' % ','.join(others)) for k, m in _judge_all(o2, d, exp, structural, tag, entry)]
    if res:
        # precondition of the property: the carrier itself must be accepted (else it is a C02 matter)
        clean = observe(d, d.base_text) if getattr(d, 'base_text', None) else None
        if clean is not None and (clean.verdict is not True or clean.errors):
            return None, 'carrier itself is rejected (C02 domain)'
    return res, None


def _judge_all(o, d, exp, structural, tag, entry):
    if isinstance(exp.get('ele'), list):
        # syntax note: the error must name one of the positions the note mentions
        members = exp['ele']
        best = None
        for p in members:
            e2 = dict(exp, ele=p)
            r = judge(o, d, e2, structural, tag, entry[4])
            if best is None or len(r) < len(best):
                best = r
        return best
    return judge(o, d, exp, structural, tag, entry[4])


def evaluate(case):
    v, skip = run_case(case)
    return v or []


def signature(seg, c, x=None):
    e = x or c
    return (seg.id, c.seq, x.seq if x else None, getattr(e, 'de', None), e.usage, c.usage, bool(getattr(e, 'codes', None)), getattr(e, 'ext', None),
            tuple(seg.syntax), is_qualifier(seg, e) if e.kind == 'ele' else False)


def cases_for_entry(entry, thorough):
    root = G.load(entry[4])
    seen = set()
    for case in _cases_for_entry(root, thorough, seen):
        if case['kind'] == 'wrong-class-printable' and entry[0] != '00401':
            continue
        yield case


def _cases_for_entry(root, thorough, seen):
    ordmap = dict((id(s), i) for i, s in enumerate(G.segments(root)))
    for case in _cases_raw(root, thorough, seen):
        if case['what'] != 'loop':
            case['ord'] = ordmap[id(case.pop('_node'))]
        yield case


def _cases_raw(root, thorough, seen):
    for seg in G.segments(root):
        if not seg.path.startswith('/ISA_LOOP/GS_LOOP/ST_LOOP/') or seg.id in ENVELOPE or seg.usage == 'N':
            if seg.usage == 'N' and seg.id not in ENVELOPE and seg.path.startswith('/ISA_LOOP/GS_LOOP/ST_LOOP/') and not any(
                    a.kind == 'loop' and a.usage == 'N' for a in ancestors(seg)):
                yield {'what': 'seg', '_node': seg, 'path': seg.path, 'kind': 'not-used-segment'}
            continue
        if any(a.kind == 'loop' and a.usage == 'N' for a in ancestors(seg)):
            continue
        first_in_loop = seg.parent.kind == 'loop' and seg is seg.parent.children[0]
        # segment-level kinds
        sig = ('seg', seg.id, tuple(seg.syntax), len(seg.children), seg.usage, G.maxrep(seg) if G.maxrep(seg) <= 10 else 99, first_in_loop)
        if thorough or sig not in seen:
            seen.add(sig)
            yield {'what': 'seg', '_node': seg, 'path': seg.path, 'kind': 'too-many-elements'}
            yield {'what': 'seg', '_node': seg, 'path': seg.path, 'kind': 'unknown-id'}
            yield {'what': 'seg', '_node': seg, 'path': seg.path, 'kind': 'unknown-id-malformed'}
            for t in seg.syntax:
                yield {'what': 'seg', '_node': seg, 'path': seg.path, 'kind': 'syntax:' + t}
            if seg.usage == 'R' and not first_in_loop:
                yield {'what': 'seg', '_node': seg, 'path': seg.path, 'kind': 'missing-required-segment'}
            if G.maxrep(seg) <= 10 and not first_in_loop:
                yield {'what': 'seg', '_node': seg, 'path': seg.path, 'kind': 'beyond-max-use'}
        for c in seg.children:
            if reader_checked(seg, c):
                continue
            if c.kind == 'ele':
                s2 = signature(seg, c)
                if not thorough and s2 in seen:
                    continue
                seen.add(s2)
                for (kind, val, code, st) in ele_faults(seg, c):
                    yield {'what': 'ele', '_node': seg, 'path': seg.path, 'seq': c.seq, 'kind': kind}
            else:
                if c.usage == 'N':
                    continue
                for x in c.children:
                    s2 = signature(seg, c, x)
                    if not thorough and s2 in seen:
                        continue
                    seen.add(s2)
                    for (kind, val, code, st) in ele_faults(seg, x, c):
                        yield {'what': 'ele', '_node': seg, 'path': seg.path, 'seq': c.seq, 'sub': x.seq, 'kind': kind}
    for n in G.walk(root):
        if n.kind == 'loop' and not gen.transparent(n) and n.usage != 'N' and n.path.startswith('/ISA_LOOP/GS_LOOP/ST_LOOP/') \
                and G.maxrep(n) <= 10 and not any(a.usage == 'N' for a in ancestors(n) if a.kind == 'loop'):
            yield {'what': 'loop', 'path': n.path, 'kind': 'beyond-repeat'}
            if interleave_partner(n) is not None:
                yield {'what': 'loop', 'path': n.path, 'kind': 'beyond-repeat-interleaved'}
    for n in G.walk(root):
        # a whole required loop left out (every segment of one instance removed); loops opened by an HL carry the
        # hierarchy numbering and are left to C04
        if n.kind == 'loop' and not gen.transparent(n) and n.usage == 'R' and n.path.startswith('/ISA_LOOP/GS_LOOP/ST_LOOP/') \
                and n.id not in ('ST_LOOP',) and n.children and n.children[0].kind == 'seg' and n.children[0].id != 'HL' \
                and not any(a.usage == 'N' for a in ancestors(n) if a.kind == 'loop'):
            yield {'what': 'loop', 'path': n.path, 'kind': 'missing-required-loop'}


def interleave_partner(gloop):
    for c in gloop.parent.children:
        if c is not gloop and c.kind == 'loop' and c.pos == gloop.pos and c.usage != 'N' and not gen.transparent(c) and G.maxrep(c) >= 2 \
                and c.children and c.children[0].kind == 'seg':
            return c
    return None


def ancestors(n):
    out = []
    n = n.parent
    while n is not None:
        out.append(n)
        n = n.parent
    return out


def work(shard):
    entry, cases = shard
    P = core.Part()
    for c in cases:
        case = dict(c, entry=list(entry))
        v, skip = run_case(case)
        P.n += 1
        if skip:
            P.counters['skipped ' + skip] += 1
            continue
        P.out('%s|%s' % (entry[4].split('.')[0] + entry[4].split('.')[1], c['kind'].split(':')[0]))
        for k, m in v:
            P.bad(k, case, '%s %s %s: %s' % (entry[4], c['path'], c['kind'], m))
        if not v and P.n % 53 == 1:
            P.sample(case, cap=1)
    return P


def run(R):
    entries = [e for e in gen.selectable_entries()]
    # one entry per map file is enough (the 997 map is selected by many keys)
    seenf = set(); ents = []
    for e in entries:
        if e[4] in seenf:
            continue
        seenf.add(e[4]); ents.append(e)
    shards = []
    total = 0
    for e in ents:
        try:
            cs = list(cases_for_entry(e, R.thorough))
        except Exception:
            continue
        total += len(cs)
        for ch in core.chunks(cs, max(1, len(cs) // 24)):
            shards.append((e, ch))
    R.pmap(work, shards)
    R.bounds = {'maps': len(ents), 'injections': total,
                'catalogue': ['too-long', 'too-long-punctuated (AN)', 'too-long-signed (R)', 'too-short', 'wrong-class', 'wrong-class-printable (^ in a 00401 document)', 'impossible-date (month)', 'impossible-date-day', 'impossible-date-day-zero', 'impossible-time (hour)', 'impossible-time-minute', 'impossible-time-second', 'outside-code-list', 'outside-code-list-case (lower-case spelling of a listed code)', 'outside-external-set (also with all other external sets excluded by option)', 'missing-required',
                              'not-used-filled', 'too-many-elements', 'syntax:<note>', 'unknown-id', 'unknown-id-malformed', 'missing-required-segment', 'beyond-max-use', 'beyond-repeat-interleaved (A, B x max, A, B for same-position sibling loops)',
                              'not-used-segment', 'beyond-repeat (loops)', 'missing-required-loop'],
                'targets': 'every node x every applicable kind' if R.thorough else 'one node per definition signature per map x every applicable kind'}
    R.assumptions = ['carrier = the d<=1 conformant document containing the target, in a two-set interchange whose other set is minimal',
                     'faults on qualifier elements and on members of syntax notes are structural: only "verdict false, an error at that segment position" is demanded',
                     'envelope segments and HL01/HL02/LX01/BHT02 are not fault targets here (C04 covers them)',
                     'out-of-place segments are decided at walker level inside the C02 search (negative transitions)']
    return R.finish(LEVEL, 'one injected fault per execution; distinct = (map, fault kind)', exhaustive=True)
