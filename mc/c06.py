"""
C06 - every acknowledgement written is itself a complete, well-formed interchange.
Corpus = C05's corpora + hostile-echo documents (foreign delimiters, data containing ~ * : ^ in elements
that are echoed into AK1/AK2/AK404/IK404, many groups, many errors per segment).  Oracle: the ack is
re-read with the reader (no envelope error), recounted, its AK3/AK4 lines are matched against the tree
(no splitting), and it is fed back to the validator.
"""
import copy
from mc import core, corpus, ref, gen, c05

ID = 'C06'
LEVEL = 'exploration'
ENV = {'isa': {'001', '021', '025', '023', '024'}, 'gs': {'3', '4', '5', '6'}, 'st': {'2', '3', '4', '23'}}
# elements of the acknowledgement that merely echo source data
ECHO = {('AK1', 1), ('AK1', 2), ('AK1', 3), ('AK2', 1), ('AK2', 2), ('AK2', 3), ('AK3', 1), ('AK3', 3), ('IK3', 1), ('IK3', 3),
        ('AK4', 2), ('AK4', 4), ('IK4', 2), ('IK4', 4), ('AK9', 2), ('GS', 2), ('GS', 3), ('GS', 6), ('GE', 2), ('GS', 7), ('ISA', 5), ('ISA', 6), ('ISA', 7), ('ISA', 8), ('ISA', 11), ('ISA', 15),
        ('TA1', 1), ('TA1', 2), ('TA1', 3)}


def hostile_docs():
    """documents in foreign delimiters whose data contain the acknowledgement's own delimiters"""
    payloads = ['A~B', 'A*B', 'A:B', 'A^B', 'A~*:^B', '~', '*', ':', 'A~IEA*1*1~B', 'A\nB']
    for e in corpus.one_entry_per_map():
        if e[4] not in ('834.4010.X095.A1.xml', '835.5010.X221.A1.xml', '837.4010.X098.A1.xml', '834.5010.X220.A1.xml'):
            continue
        base = corpus.build_ok(e, {'all': True, 'fill_all': True}) or corpus.build_ok(e, {})
        if base is None:
            continue
        root_de = gen.G.dataele()
        # (a) echoed offending values: every free-text AN element of the document, made too long with each payload
        targets = []
        for i, (s, n) in enumerate(zip(base.segs, base.nodes)):
            if s[0] in ('ISA', 'GS', 'ST', 'SE', 'GE', 'IEA', 'HL', 'LX'):
                continue
            for c in n.children:
                if c.kind == 'ele' and not c.codes and not c.ext and c.usage != 'N' and root_de.get(c.de, ('',))[0] == 'AN' and c.seq < len(s) and s[c.seq] != '':
                    targets.append((i, c.seq, root_de[c.de][2]))
        for pi, p in enumerate(payloads):
            for (i, seq, mx) in targets[:6]:
                d = copy.deepcopy(base)
                d.segs[i][seq] = (p * (mx + 2))[:mx + len(p) + 1]
                yield ('hostile:%s:value:%d@%d-%d' % (e[4], pi, i, seq), d.text('!', '|', '>', eol='\n'), {})
            # many errors on one segment
            d = copy.deepcopy(base)
            for (i, seq, mx) in targets[:12]:
                d.segs[i][seq] = (p * (mx + 2))[:mx + len(p) + 1]
            yield ('hostile:%s:many:%d' % (e[4], pi), d.text('!', '|', '>', eol='\n'), {})
        # (b) echoed envelope values
        for pi, p in enumerate(payloads[:8]):
            for what in ('GS02', 'GS03', 'GS06', 'GS07', 'ST01', 'ST02', 'ST03', 'ISA06', 'ISA08'):
                d = copy.deepcopy(corpus.build_ok(e, {'groups': 2}) or base)
                for s in d.segs:
                    if s[0] == what[:-2]:
                        k = int(what[-2:])
                        if what.startswith('ISA'):
                            s[k] = (p + 'SENDER'.ljust(15))[:15]
                        else:
                            while len(s) <= k:
                                s.append('')
                            s[k] = p
                        break
                yield ('hostile:%s:%s:%d' % (e[4], what, pi), d.text('!', '|', '>', eol='\n'), {})
        for ng in (3, 4):
            d = corpus.build_ok(e, {'groups': ng, 'sets': 2})
            if d is not None:
                yield ('hostile:%s:groups%d' % (e[4], ng), d.text('!', '|', '>', eol='\n'), {})
        # (d) one set that collects every set-level code at once (reused ST02, SE02 mismatching and over-long, SE01 non-numeric and
        #     wrong, an unknown body segment): AK5 / IK5 has room for five codes
        d = copy.deepcopy(corpus.build_ok(e, {'sets': 2}) or base)
        sts = [i for i, s_ in enumerate(d.segs) if s_[0] == 'ST']
        ses = [i for i, s_ in enumerate(d.segs) if s_[0] == 'SE']
        if len(sts) >= 2 and len(ses) >= 2:
            d.segs[sts[1]][2] = d.segs[sts[0]][2]
            d.segs[ses[1]][1] = 'x'
            d.segs[ses[1]][2] = 'CONTROLNUMBERTOOLONG'
            d.segs.insert(ses[1], ['ZZZ', 'A']); d.nodes.insert(ses[1], None); d.lpaths.insert(ses[1], d.lpaths[ses[1] - 1])
            yield ('hostile:%s:every-set-level-code' % e[4], d.text(eol='\n'), {})
        # (e) a functional-acknowledgement group (GS01 = FA, holding a 997 / 999 set) in front of an ordinary group of the same
        #     interchange: whatever the visitors do for the FA group, the acknowledgement of the file stays one well-formed interchange
        ack_map = '999.5010.xml' if e[0] == '00501' else '997.4010.xml'
        fa = [x for x in corpus.one_entry_per_map() if x[4] == ack_map]
        d2 = corpus.build_ok(e, {'sets': 2})
        d1 = corpus.build_ok(fa[0], {}) if fa else None
        if d1 is not None and d2 is not None:
            g1 = [copy.deepcopy(s_) for s_ in d1.segs if s_[0] not in ('ISA', 'IEA')]
            for order in ('fa-first', 'fa-last'):
                segs = [copy.deepcopy(s_) for s_ in d2.segs]
                k = 1 if order == 'fa-first' else len(segs) - 1
                for s_ in g1:
                    if s_[0] == 'GS': s_[6] = '77'
                    if s_[0] == 'GE': s_[2] = '77'
                segs[k:k] = g1
                segs[-1][1] = '2'
                yield ('hostile:%s:%s' % (e[4], order), '\n'.join('*'.join(gen.Doc_flat(s_)) + '~' for s_ in segs) + '\n', {})
        # (c) control numbers as fixed-width systems write them: blank padded / zero filled, header and trailer alike
        #     (the source envelope is consistent; the acknowledgement's own envelope must be too)
        for name, fn in (('pad-right', lambda v: v + '   '), ('pad-left', lambda v: '  ' + v), ('zero-fill', lambda v: '000' + v), ('pad-both', lambda v: ' ' + v + ' ')):
            for what in ('GS', 'ST', 'GS+ST'):
                d = copy.deepcopy(corpus.build_ok(e, {'groups': 2, 'sets': 2}) or base)
                for s_ in d.segs:
                    if s_[0] == 'GS' and 'GS' in what: s_[6] = fn(s_[6])
                    elif s_[0] == 'GE' and 'GS' in what: s_[2] = fn(s_[2])
                    elif s_[0] == 'ST' and 'ST' in what: s_[2] = fn(s_[2])
                    elif s_[0] == 'SE' and 'ST' in what: s_[2] = fn(s_[2])
                yield ('hostile:%s:ctl-%s:%s' % (e[4], name, what), d.text(eol='\n'), {})


def reread(ack):
    import io, pyx12.x12file
    r = pyx12.x12file.X12Reader(io.StringIO(ack))
    errs = []
    n = 0
    for seg in r:
        n += 1
        errs += [(e[0], e[1]) for e in r.pop_errors() if e[1] in ENV.get(e[0], ())]
    r.cleanup()
    errs += [(e[0], e[1]) for e in r.pop_errors() if e[1] in ENV.get(e[0], ())]
    return n, errs


def judge_ack(text, o):
    from mc import pipe
    v = []
    ack = o.ack
    if not ack:
        return v
    segs = pipe.ack_segments(ack)
    if not segs or segs[-1][0] != 'IEA':
        v.append(('C06|incomplete', 'acknowledgement does not end with IEA: %r' % ack[-120:]))
        return v
    if not ref.header_ok(ack):
        v.append(('C06|ISA malformed', 'first 106 characters are not a well-formed ISA: %r' % ack[:110]))
        return v
    # 1. the reader accepts it
    try:
        n, errs = reread(ack)
    except Exception as e:
        return v + [('C06|reread raises %s@%s' % (type(e).__name__, core.where(e)), 'reading the acknowledgement raised %r' % e)]
    if errs:
        v.append(('C06|envelope error %s' % ','.join(sorted(set('%s/%s' % x for x in errs))), 'reader reports %r on the acknowledgement' % errs[:4]))
    # 2. independent recount (tokenised with the reference tokenizer)
    toks, d = ref.tokenize(ack)
    flat = [[t.id] + [':'.join(c) if t.id != 'ISA' else c[0] for c in t.eles] for t in toks if t.id is not None]
    if not ref.nests(flat):
        v.append(('C06|does not nest', 'envelope of the acknowledgement does not nest: %r' % [s[0] for s in flat][:30]))
    else:
        per, end, loose = ref.recount(flat)
        bad = sorted(set(x for p in per for x in p if x[0] != 'seg') | set(end))
        if bad:
            v.append(('C06|recount %s' % ','.join('%s/%s' % x for x in bad), 'recount of the acknowledgement finds %r' % bad))
    # 3. echoed values never add or split elements or segments: every AK3/AK4 (IK3/IK4) line has the structure the tree implies
    if o.tree is not None:
        exp3 = 0; exp4 = 0
        for isa in o.tree:
            for gr in isa['gs']:
                for st in gr['st']:
                    for s in st['segs']:
                        codes = set(c for c, _ in s['errors'])
                        if 'SEG1' in codes:
                            codes.discard('SEG1'); codes.add('8')
                        k3 = len([c for c in codes if c in c05.AK3_CODES])
                        if s['ele'] and '8' not in codes:
                            k3 += 1
                        exp3 += k3
                        exp4 += len([1 for (p, sub, c, val) in s['ele'] if c in c05.AK4_CODES])
        got3 = len([s for s in segs if s[0] in ('AK3', 'IK3')])
        got4 = len([s for s in segs if s[0] in ('AK4', 'IK4')])
        ids = [s[0] for s in segs]
        allowed = {'ISA', 'GS', 'ST', 'AK1', 'AK2', 'AK3', 'AK4', 'AK5', 'AK9', 'IK3', 'IK4', 'IK5', 'CTX', 'SE', 'GE', 'IEA', 'TA1'}
        stray = [i for i in ids if i not in allowed]
        if stray:
            v.append(('C06|echo adds segments', 'segments %r appear in the acknowledgement' % stray[:5]))
        elif is999(segs) is False and (got3, got4) != (exp3, exp4):
            v.append(('C06|AK3/AK4 line count', 'tree implies %d AK3 and %d AK4 lines, acknowledgement has %d and %d' % (exp3, exp4, got3, got4)))
        for s in segs:
            if s[0] in ('AK4', 'IK4') and len(s) > 5:
                v.append(('C06|echo splits AK404', 'line %r has %d elements' % ('*'.join(s), len(s) - 1)))
                break
            if s[0] in ('AK3', 'IK3') and len(s) > 5:
                v.append(('C06|echo splits AK3', 'line %r' % '*'.join(s)))
                break
            if s[0] == 'AK2' and len(s) > 4 or s[0] == 'AK1' and len(s) > 4:
                v.append(('C06|echo splits %s' % s[0], 'line %r' % '*'.join(s)))
                break
    if v:
        return v
    # 4. fed back to the validator
    o2 = pipe.run(ack, sinks=(), want_nodes=False)
    if o2.exc:
        kind = 'map-not-found' if o2.exc == 'EngineError' and 'Map not found' in str(o2.exc_obj) else 'raises %s@%s' % (o2.exc, o2.exc_where)
        v.append(('C06|revalidate|%s' % kind, 'validating the acknowledgement raised %r (GS08=%r)' % (o2.exc_obj, [s[8] for s in segs if s[0] == 'GS' and len(s) > 8])))
    elif o2.verdict is not True and not anchor_unfit(segs):
        foreign = []
        for er in (o2.errors or []):
            if er[0] in ('ele', 'gs-ele', 'st-ele', 'isa-ele') and (er[5], er[7]) in ECHO:
                continue
            foreign.append(er)
        if foreign:
            v.append(('C06|revalidate|rejected %s/%s at %s%s' % (foreign[0][0], foreign[0][1], foreign[0][5] or '', foreign[0][7] or ''),
                      'the acknowledgement is rejected for reasons other than echoed values: %r' % foreign[:4]))
    return v


_AK101 = {}


def anchor_unfit(segs):
    """AK101 echoes the source GS01 and is at the same time the value that lets the map recognise AK1, the segment that
    opens the acknowledgement's header loop: a GS01 outside the map's AK101 code list (e.g. FA, when a 997 is itself
    acknowledged) makes the whole set unrecognisable -- a rejection caused by an echoed value that does not fit the
    acknowledgement's own element definition, which the statement excuses"""
    from mc import grammar as G
    fname = '999.5010.xml' if is999(segs) else '997.4010.xml'
    if fname not in _AK101:
        codes = None
        for n in G.segments(G.load(fname)):
            if n.id == 'AK1':
                codes = set(n.children[0].codes)
                break
        _AK101[fname] = codes
    codes = _AK101[fname]
    if not codes:
        return False
    return any(s[0] == 'AK1' and len(s) > 1 and s[1] not in codes for s in segs)


# ----- the command-line validator: the acknowledgement FILES it leaves next to its inputs -------------------
def x12valid_docs():
    out = []
    ents = dict((e[4], e) for e in corpus.one_entry_per_map())
    for f in ('834.4010.X095.A1.xml', '835.5010.X221.A1.xml'):
        items_ = [it for it in corpus.shape_docs([ents[f]]) if it[0].endswith(':1x1x1') or it[0].endswith(':1x2x3:bad0') or it[0].endswith(':1x1x2:bad1')]
        for it in items_:
            out.append((it[0], corpus.text_of(it)))
    return out


def run_x12valid(texts):
    """one invocation of pyx12.scripts.x12valid.main() on the given texts (written as in0.txt, in1.txt, ...) ->
    list of the .997 file contents (None when no file was written)"""
    import tempfile, shutil, os, sys, io, logging
    import pyx12.scripts.x12valid as xv
    from mc import pipe
    pipe.stub_clock()
    tmp = tempfile.mkdtemp(prefix='c06_', dir='/dev/shm' if os.path.isdir('/dev/shm') else None)
    try:
        paths = []
        for i, t in enumerate(texts):
            p = os.path.join(tmp, 'in%d.txt' % i)
            with open(p, 'w', encoding='ascii', newline='') as f:
                f.write(t)
            paths.append(p)
        argv0, err0 = sys.argv, sys.stderr
        lg = logging.getLogger('pyx12'); h0 = list(lg.handlers); lvl = lg.level
        sys.argv = ['x12valid', '-q'] + paths
        sys.stderr = io.StringIO()
        try:
            xv.main()
        finally:
            sys.argv, sys.stderr = argv0, err0
            lg.handlers[:] = h0; lg.setLevel(lvl)
        out = []
        for i in range(len(texts)):
            q = os.path.join(tmp, 'in%d.997' % i)
            out.append(open(q, encoding='ascii', newline='').read() if os.path.exists(q) else None)
        return out
    finally:
        shutil.rmtree(tmp, ignore_errors=True)


def judge_batch(labels, texts):
    """every acknowledgement file of a batch run equals the file a run on that input alone leaves (clock and random stubbed)"""
    from mc import pipe
    v = []
    try:
        got = run_x12valid(texts)
    except Exception as e:
        return [('C06|x12valid|raises %s@%s' % (type(e).__name__, core.where(e)), 'x12valid on %r raised %r' % (labels, e))]
    for i, (lab, t) in enumerate(zip(labels, texts)):
        alone = run_x12valid([t])[0]
        if got[i] != alone:
            a = (alone or '').split('\n'); g = (got[i] or '').split('\n')
            k = next((j for j in range(max(len(a), len(g))) if (a[j] if j < len(a) else None) != (g[j] if j < len(g) else None)), None)
            v.append(('C06|x12valid|acknowledgement file of a batch run differs from the single run',
                      'x12valid %s: the .997 of input %d (%s) has %d lines, alone %d; first difference at line %s: %r vs %r'
                      % (' '.join(labels), i, lab, len(g), len(a), k, g[k] if k is not None and k < len(g) else None, a[k] if k is not None and k < len(a) else None)))
            break
        if alone:
            segs = pipe.ack_segments(alone)
            if not segs or segs[-1][0] != 'IEA' or sum(1 for s_ in segs if s_[0] == 'ISA') != 1:
                v.append(('C06|x12valid|acknowledgement file is not one complete interchange', 'x12valid %s: %r' % (lab, alone[-120:])))
    return v


def work_batches(shard):
    import itertools
    P = core.Part()
    docs = x12valid_docs()
    part, nparts = shard
    combos = list(itertools.permutations(range(len(docs)), 2)) + [c for c in itertools.permutations(range(len(docs)), 3)]
    for ci, combo in enumerate(combos):
        if ci % nparts != part:
            continue
        labels = [docs[i][0] for i in combo]; texts = [docs[i][1] for i in combo]
        P.n += 1
        P.out('x12valid|%d files' % len(combo))
        for k, m in judge_batch(labels, texts):
            P.bad(k, {'kind': 'x12valid', 'combo': list(combo)}, m)
    return P


def is999(segs):
    return any(s[0] == 'ST' and len(s) > 1 and s[1] == '999' for s in segs)


def run_text(label, text):
    o = c05.observe(text)
    if o.exc:
        return None, 'validation does not complete (C07 domain)'
    if o.ack is None or o.ack == '':
        return None, 'no acknowledgement written'
    return judge_ack(text, o), None


def items(thorough, family):
    if family == 'hostile':
        return hostile_docs()
    return c05.items(thorough, family)


def work(shard):
    family, part, nparts, thorough = shard
    P = core.Part()
    for i, it in enumerate(ITEMS[family]):
        if i % nparts != part:
            continue
        text = it[1]
        P.n += 1
        v, skip = run_text(it[0], text)
        if skip:
            P.counters['skipped: ' + skip] += 1
            continue
        P.out('%s|%s' % (family, it[0].split(':')[2][:14] if it[0].count(':') >= 2 else it[0].split(':')[1][:12]))
        for k, m in v:
            P.bad(k, {'label': it[0], 'text': text}, '%s: %s' % (it[0], m))
        if not v and P.n % 41 == 1:
            P.sample({'label': it[0], 'bytes': len(text)}, cap=1)
    return P


def evaluate(case):
    if case.get('kind') == 'x12valid':
        docs = x12valid_docs()
        return judge_batch([docs[i][0] for i in case['combo']], [docs[i][1] for i in case['combo']])
    v, skip = run_text(case['label'], case['text'])
    return v or []


ITEMS = {}


def materialise(thorough, families):
    """enumerate every family once in the parent; the forked workers index into the lists"""
    for fam in families:
        if fam not in ITEMS:
            ITEMS[fam] = [(it[0], corpus.text_of(it), {}) for it in items(thorough, fam)]


def run(R):
    shards = []
    for fam, n in (('valid', 16), ('fault', 32), ('shape', 16), ('suite', 4), ('envelope', 16), ('ta1', 4), ('address', 4), ('mixed', 8), ('mutant', 48), ('hostile', 32)):
        for p in range(n):
            shards.append((fam, p, n, R.thorough))
    materialise(R.thorough, sorted(set(s[0] for s in shards)))
    R.cov['documents_per_family'] = dict((k, len(v)) for k, v in ITEMS.items())
    R.pmap(work, shards)
    R.pmap(work_batches, [(p, 16) for p in range(16)])
    R.bounds = {'x12valid': 'the command-line validator run on every ordered pair and triple of 6 documents (clean, one faulty set, faulty with several groups; 997 and 999): each .997 file it leaves must equal the file of a run on that input alone and be one complete interchange',
                'corpus': 'the C05 corpora (incl. TA1-requesting interchanges) plus hostile-echo documents: 4 maps x 10 payloads containing ~ * : ^ LF x (6 free-text elements singly, 12 at once) and 8 payloads x 9 echoed envelope fields, 3 and 4 groups, all in ! | > delimiters'}
    R.assumptions = ['an acknowledgement is judged only when validation completed and something was written',
                     're-validation may reject the acknowledgement only through element errors on fields that echo source data (AK1/AK2/AK3-01/AK4-02,04, ISA/GS ids)']
    return R.finish(LEVEL, 'one document per execution; distinct = (family, kind)', exhaustive=True)
