"""
E2: explicit-state breadth-first search over the real transition function paired with a reference model.
Level-synchronous; each level's frontier is split over the fork pool, the parent de-duplicates on the
canonical key (implementation state projection, model state).  A state is represented by the event
history that reaches it (fresh real object per execution, history replayed).

expand(hist) -> list of (event, key or None, [ (finding_key, msg) ], outcome_label)
   key None  => do not extend (terminal / failed)
"""
import multiprocessing, hashlib
from mc import core


def _expand_chunk(args):
    expand, hists = args
    out = []
    for h in hists:
        try:
            out.append((h, expand(h)))
        except Exception as e:
            import traceback
            return ('HARNESS', ''.join(traceback.format_exception(type(e), e, e.__traceback__)))
    return out


def search(R, expand, init_hists, depth, label='', max_states=None):
    """explores every history of length <= depth (merging equal canonical states).  Returns dict of stats."""
    P = core.Part()
    seen = set()
    frontier = [list(h) for h in init_hists]
    per_level = []
    ctx = multiprocessing.get_context('fork')
    pool = ctx.Pool(core.NPROC)
    capped = False
    try:
        for lvl in range(depth):
            if not frontier:
                break
            chunks = core.chunks(R.order(frontier), core.NPROC * 4)
            nxt = []
            ntrans = 0
            for res in pool.imap_unordered(_expand_chunk, [(expand, c) for c in chunks]):
                if isinstance(res, tuple) and res and res[0] == 'HARNESS':
                    R.harness_errors.append(res[1])
                    continue
                for h, succ in res:
                    for ev, key, viols, outcome in succ:
                        ntrans += 1
                        if outcome is not None:
                            P.out(outcome)
                        for fk, msg in viols:
                            P.bad(fk, {'hist': h + [ev], 'label': label}, msg)
                        if key is not None:
                            key = hashlib.sha1(repr(key).encode()).digest()[:12]
                        if key is not None and key not in seen:
                            seen.add(key)
                            nxt.append(h + [ev])
            # deterministic order independent of pool scheduling
            nxt.sort(key=lambda x: repr(x))
            per_level.append({'depth': lvl + 1, 'transitions': ntrans, 'new_states': len(nxt)})
            P.transitions += ntrans
            P.n += ntrans
            if nxt:
                P.sample({'label': label, 'history': nxt[len(nxt) // 2]}, cap=2)
            if max_states and len(seen) > max_states:
                capped = True
                R.caps.append('%s: state cap %d reached at depth %d' % (label, max_states, lvl + 1))
                break
            frontier = nxt
    finally:
        pool.terminate()
        pool.join()
    P.states = len(seen) + len(init_hists)
    R.merge(P)
    return {'label': label, 'levels': per_level, 'states': P.states, 'transitions': P.transitions, 'capped': capped}
