"""
C02 - every map-conformant document is accepted with zero errors.
(a) E2: walker automaton vs grammar automaton -- every grammar-permitted successor of every reachable
    walker state of every selectable map (mc/c02a.py, run from here).
(b) E3: every conformant document within d deviations of the minimal one, through the whole pipeline.
"""
import itertools
import json
from mc import core, gen, grammar as G

ID = 'C02'
LEVEL = 'model_checking'


def plan_from_json(p):
    q = dict(p)
    if 'include' in q: q['include'] = set(q['include'])
    if 'fill' in q: q['fill'] = set(tuple(x) for x in q['fill'])
    return q


def plan_to_json(p):
    q = dict(p)
    if 'include' in q: q['include'] = sorted(q['include'])
    if 'fill' in q: q['fill'] = sorted(list(x) for x in q['fill'])
    return q


def merge_plans(a, b):
    q = {}
    for p in (a, b):
        for k, v in p.items():
            if k == 'include': q['include'] = set(q.get('include', ())) | set(v)
            elif k == 'fill': q['fill'] = set(q.get('fill', ())) | set(v)
            elif k == 'repeat':
                r = dict(q.get('repeat', {}))
                for kk, vv in v.items():
                    r[kk] = max(vv, r.get(kk, 0))
                q['repeat'] = r
            else:
                q[k] = v
    return q


def judge_doc(entry, plan):
    """-> ('skip', reason) | ('ok', info) | ('bad', [(key, msg)])"""
    from mc import pipe
    pipe.stub_clock()
    try:
        d = gen.build(entry, plan)
    except gen.Ungeneratable as e:
        return 'skip', 'ungeneratable: %s' % e, None
    sc = gen.selfcheck(d)
    if sc:
        return 'skip', 'ambiguous under first-match: %s vs %s' % (sc[1], sc[2]), None
    text = d.text(eol=plan.get('eol', '\n'))
    o = pipe.run(text, sinks=('ack',))
    f = entry[4]
    v = []
    if o.exc:
        return 'bad', [('C02|%s|raises %s@%s' % (f, o.exc, o.exc_where), 'conformant document raised %r' % o.exc_obj)], d
    if o.errors:
        seen = set()
        for er in o.errors:
            k = 'C02|%s|error %s/%s at %s%s' % (f, er[0], er[1], er[5] or '', ('%02d' % er[7]) if er[7] else '')
            if k not in seen:
                seen.add(k)
                v.append((k, 'conformant document drew error %r' % (er,)))
            if len(seen) >= 3:
                break
    elif o.verdict is not True:
        v.append(('C02|%s|verdict false without any error' % f, 'verdict %r' % o.verdict))
    if not v:
        for got, want in zip(o.nodes, d.nodes):
            if (got or '').split('[')[0] != want.path and want.id not in ('ISA', 'GS'):
                v.append(('C02|%s|matched-other-node %s' % (f, want.path), 'segment generated from %s was matched to %s' % (want.path, got)))
                break
        if o.ack is not None and entry[2] != 'FA':
            segs = pipe.ack_segments(o.ack)
            for s in segs:
                if s[0] in ('AK5', 'IK5', 'AK9') and (len(s) < 2 or s[1] != 'A'):
                    v.append(('C02|%s|ack-not-accepted %s' % (f, s[0]), 'acknowledgement line %s' % '*'.join(s)))
            if not any(s[0] == 'AK9' for s in segs):
                v.append(('C02|%s|ack-incomplete' % f, 'no AK9 in %r' % o.ack[:200]))
    if v:
        return 'bad', v, d
    return 'ok', len(d.segs), d


def evaluate(case):
    if case.get('part') == 'a':
        from mc import c02a
        return c02a.evaluate(case)
    if not case.get('_inproc'):
        # in a brand-new interpreter: the prelude must be the first thing that process validates (this process has
        # loaded maps already, and a cache that ignores the options would hide the difference)
        import subprocess, sys as _sys
        code = ('import sys, json; sys.path.insert(0, %r); from mc import core; core.bind_repo(); from mc import c02; '
                'print("RESULT" + json.dumps(c02.evaluate(dict(json.load(sys.stdin), _inproc=True))))' % core.VERIF)
        p_ = subprocess.run([_sys.executable, '-B', '-c', code], input=json.dumps(case, default=str), capture_output=True, text=True, timeout=600)
        for line in p_.stdout.splitlines():
            if line.startswith('RESULT'):
                return [tuple(x) for x in json.loads(line[6:])]
        raise RuntimeError('evaluation subprocess failed: %s' % p_.stderr[-500:])
    entry = tuple(case['entry'])
    prelude(entry)
    st, v, d = judge_doc(entry, plan_from_json(case['plan']))
    return v if st == 'bad' else []


_PRELUDE = set()


def prelude(entry):
    """once per worker process and map: the minimal document is validated under the OTHER character set first.  What a
    conformant document gets must not depend on what the process validated before, under whatever options"""
    if entry[4] in _PRELUDE:
        return
    _PRELUDE.add(entry[4])
    from mc import pipe
    try:
        d = gen.build(entry, {})
        pipe.run(d.text(eol='\n'), sinks=(), charset='B', want_nodes=False)
    except Exception:
        pass


def work(shard):
    entry, plans = shard
    P = core.Part()
    prelude(entry)
    for name, plan in plans:
        st, v, d = judge_doc(entry, plan)
        P.n += 1
        if st == 'skip':
            P.counters['skipped: ' + v.split(':')[0]] += 1
            P.counters['skip detail: %s: %s' % (entry[4], v[:90])] += 1
            continue
        P.out('%s|%s' % (entry[4], name.split(':')[0]))
        if st == 'bad':
            for k, m in v:
                P.bad(k, {'entry': list(entry), 'plan': plan_to_json(plan), 'name': name}, m + ' | plan=' + name)
        elif P.n % 97 == 1:
            P.sample({'map': entry[4], 'plan': name, 'segments': v, 'first_lines': d.text(eol='\n').split('\n')[2:6]}, cap=1)
    return P


def pair_plans(entry, limit_same_parent=True):
    """d=2: pairs of structural deviations whose nodes share the same parent loop, plus each with two-sets"""
    named = list(gen.plans_d1(entry))
    struct = [(n, p) for n, p in named if n.split(':')[0] in ('include', 'repeat2', 'repeatmax')]

    def parent(n):
        return n.split(':', 1)[1].rsplit('/', 1)[0]
    by = {}
    for n, p in struct:
        by.setdefault(parent(n), []).append((n, p))
    for grp in by.values():
        for (n1, p1), (n2, p2) in itertools.combinations(grp, 2):
            if n1.split(':', 1)[1] == n2.split(':', 1)[1]:
                continue
            yield (n1 + ' + ' + n2, merge_plans(p1, p2))
    for n, p in struct:
        yield (n + ' + lastcode', merge_plans(p, {'code': 'last'}))


def run(R):
    from mc import c02a
    entries = gen.selectable_entries()
    shards = []
    nplans = 0
    for e in entries:
        plans = list(gen.plans_d1(e)) + list(gen.plans_boundary(e, R.thorough))
        if R.thorough:
            plans += list(pair_plans(e))
        nplans += len(plans)
        for ch in core.chunks(plans, max(1, len(plans) // 40)):
            shards.append((e, ch))
    R.pmap(work, shards)
    R.bounds = {'b': {'entries': len(entries), 'plans': nplans,
                      'deviations': 'd<=1: minimal, max-length values, last codes, everything optional (elements empty / filled), 2 sets / groups / interchanges, each optional node included, each repeatable node twice and max (<=10) times, each situational element / component filled; boundary: a 160-set document (> two 8 KiB reads), LF / CRLF after every terminator, one value lengthened by 0..29 characters'
                      + ('; d<=2: pairs of structural deviations under one parent loop, each structural deviation with last codes' if R.thorough else '')}}
    sa = c02a.run_part(R)
    R.bounds['a'] = sa
    R.assumptions = ['documents that the independent first-match parser assigns to other nodes than the generating ones (map ambiguity) are skipped and counted',
                     'nodes for which no admissible value can be synthesised are counted as ungeneratable, never reported',
                     'element values: two per element (min/max length, first/last code), plus signed / punctuation / lower-case shapes', 'every worker validates the minimal document of the map under charset B before it judges documents under the default options (the verdict on a conformant document must not depend on earlier calls)']
    return R.finish(LEVEL, '(b) conformant documents by plan; (a) walker transitions; distinct = (map, deviation kind) / canonical walker states', exhaustive=True)
