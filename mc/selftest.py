"""setup_cmd: nothing is built; verify the toolchain sees /repo's working tree and the manifest is valid"""
import os, sys, json
sys.path.insert(0, os.path.dirname(os.path.dirname(os.path.abspath(__file__))))
from mc import core
core.bind_repo()
m = json.load(open(os.path.join(core.VERIF, 'MANIFEST.json')))
assert m['version'] == 1 and m['checks']
json.load(open(os.path.join(core.VERIF, 'known_findings.json')))
os.makedirs(os.path.join(core.VERIF, 'evidence'), exist_ok=True)
print('setup ok: pyx12 from', os.path.dirname(__import__('pyx12').__file__), 'checks', len(m['checks']))
