"""
C13 - data-type recognisers accept exactly the X12 value languages.
Exhaustive enumeration of complete bounded languages (E1 with bound = all) against recognisers
written from the property statement with the `calendar` module and explicit character tables.
"""
import itertools, calendar, re
from mc import core

ID = 'C13'
LEVEL = 'model_checking'
FULL_IN_QUICK = True     # the complete space costs seconds: quick == thorough

BASIC = set('ABCDEFGHIJKLMNOPQRSTUVWXYZ0123456789!"&\'()*+,-./:;?= ')
EXT = BASIC | set('abcdefghijklmnopqrstuvwxyz%~@[]_{}\\|<>#$')
EXT5 = EXT | set('^`')
DIG = '0123456789'


def isdig(s):
    return len(s) > 0 and all(c in DIG for c in s)


def ref_date8(v):
    if len(v) != 8 or not isdig(v):
        return False
    y, m, d = int(v[:4]), int(v[4:6]), int(v[6:8])
    if y < 1800 or not 1 <= m <= 12:
        return False
    return 1 <= d <= calendar.monthrange(y, m)[1]


def ref_date6(v):
    if len(v) != 6 or not isdig(v):
        return False
    return ref_date8(('20' if int(v[:2]) < 50 else '19') + v)


def ref_hhmm(v):
    return len(v) == 4 and isdig(v) and int(v[:2]) <= 23 and int(v[2:]) <= 59


def ref_time(v):
    if not isdig(v) or len(v) not in (4, 6, 7, 8):
        return False
    if int(v[:2]) > 23 or int(v[2:4]) > 59:
        return False
    if len(v) >= 6 and int(v[4:6]) > 59:
        return False
    return True


def ref(v, t, cs, icvn):
    """None = the statement does not say (only 'does not raise' is demanded)"""
    if t is None or t == '' or t == 'B':
        return None
    if t[0] == 'N':
        s = v[1:] if v.startswith('-') else v
        return isdig(s)
    if t == 'R':
        s = v[1:] if v.startswith('-') else v
        if s.count('.') > 1:
            return False
        if '.' in s:
            a, b = s.split('.')
            return (a == '' or isdig(a)) and isdig(b)
        return isdig(s)
    if t in ('ID', 'AN'):
        table = BASIC if cs == 'B' else (EXT5 if icvn == '00501' else EXT)
        return all(c in table for c in v)
    if t == 'D8':
        return ref_date8(v)
    if t == 'D6':
        return ref_date6(v)
    if t == 'DT':
        if len(v) == 8:
            return ref_date8(v)
        if len(v) == 6:
            return ref_date6(v)
        if len(v) == 12:
            return ref_date8(v[:8]) and ref_hhmm(v[8:])
        return False
    if t == 'RD8':
        p = v.split('-')
        return len(p) == 2 and ref_date8(p[0]) and ref_date8(p[1])
    if t == 'TM':
        return ref_time(v)
    return None


def shape(v):
    out = []
    for c in v:
        k = '9' if c in DIG else ('a' if c.isalpha() and c.isascii() else ('U+%04X' % ord(c) if not (32 < ord(c) < 127) else c))
        if out and out[-1][0] == k:
            out[-1][1] += 1
        else:
            out.append([k, 1])
    return ''.join(k if n == 1 else '%s{%d}' % (k, n) for k, n in out)


def klass(v, t):
    """coarse, call-site-level class of a failing input (keeps finding keys few and specific)"""
    if t == 'RD8':
        return 'hyphens=%d' % min(v.count('-'), 3)
    if t in ('TM', 'D8', 'D6', 'DT'):
        return ('len=%d' % len(v)) if isdig(v) or v == '' else 'nondigit:' + shape(v)
    if t in ('ID', 'AN'):
        badc = sorted(set(c for c in v if c not in EXT5))
        return 'char=' + ','.join('U+%04X' % ord(c) for c in (badc or sorted(set(v)))[:2])
    return 'shape=' + shape(v)


def evaluate(case):
    from pyx12 import validation
    if 'seq' in case:
        return eval_seq(case['v'], case['t'], case['cs'], case['seq'])
    v, t, cs, icvn = case['v'], case['t'], case['cs'], case['icvn']
    exp = ref(v, t, cs, icvn)
    try:
        got = validation.IsValidDataType(v, t, cs, icvn)
    except Exception as e:
        return [('C13|%s|raises %s@%s|%s' % (t, type(e).__name__, core.where(e), klass(v, t) if t else ''),
                 'IsValidDataType(%r,%r,%r,%r) raised %r' % (v, t, cs, icvn, e))]
    if exp is None or bool(got) == exp:
        return []
    kind = 'accepts-invalid' if got else 'rejects-valid'
    tag = t if t not in ('ID', 'AN') else '%s/%s/%s' % (t, cs, icvn)
    return [('C13|%s|%s|%s' % (tag, kind, klass(v, t)), 'IsValidDataType(%r,%r,%r,%r) = %r, the statement says %r' % (v, t, cs, icvn, got, exp))]


def eval_seq(v, t, cs, seq):
    """the same value asked under several interchange versions in one process, in the given order: every answer must be
    the one the statement gives for that version (a recogniser is a function of its arguments, whatever was asked before)"""
    from pyx12 import validation
    out = []
    for k, icvn in enumerate(seq):
        exp = ref(v, t, cs, icvn)
        try:
            got = validation.IsValidDataType(v, t, cs, icvn)
        except Exception as e:
            out.append(('C13|%s|raises %s@%s|%s' % (t, type(e).__name__, core.where(e), klass(v, t)), 'IsValidDataType(%r,%r,%r,%r) raised %r' % (v, t, cs, icvn, e)))
            continue
        if exp is not None and bool(got) != exp:
            out.append(('C13|%s/%s|answer depends on the version asked before|%s' % (t, cs, klass(v, t)) if k else
                        'C13|%s/%s/%s|%s|%s' % (t, cs, icvn, 'accepts-invalid' if got else 'rejects-valid', klass(v, t)),
                        'IsValidDataType(%r,%r,%r,%r) = %r after asking %r, the statement says %r' % (v, t, cs, icvn, got, seq[:k], exp)))
    return out


# ----- enumeration -----------------------------------------------------------------------------
def strings(alpha, maxlen):
    for n in range(maxlen + 1):
        for tup in itertools.product(alpha, repeat=n):
            yield ''.join(tup)


YEARS = ['0000', '0001', '1799', '1800', '1801', '1899', '1900', '1901', '1996', '1999', '2000', '2001', '2004',
         '2100', '2400', '9999']


def space(tier):
    """list of shards; a shard is (label, type, charset, icvn, generator-spec)"""
    T = tier == 'thorough'
    sh = []
    nlen = 7 if T else 6
    for t in ('N', 'N0', 'N2', 'N9', 'R'):
        for first in ['', '0', '5', '-', '.', 'a', ' ', '+']:
            sh.append(('num', t, 'B', '00401', (first, nlen - 1)))
    for t in ('N', 'N0', 'N2', 'N9', 'R'):
        sh.append(('numframe', t, 'B', '00401', None))
    for t in ('D8', 'DT'):
        for y in YEARS:
            sh.append(('ymd', t, 'B', '00401', y))
    sh.append(('d6', 'D6', 'B', '00401', None))
    sh.append(('d6', 'DT', 'B', '00401', None))
    sh.append(('lens', None, 'B', '00401', None))
    for y in (['1800', '1999', '2000', '2004', '1799'] if T else ['2004', '1799']):
        sh.append(('dt12', 'DT', 'B', '00401', y))
    for h in range(0, 25):
        sh.append(('tm', 'TM', 'B', '00401', h))
    sh.append(('tmshort', 'TM', 'B', '00401', None))
    sh.append(('rd8', 'RD8', 'B', '00401', None))
    for t in ('ID', 'AN'):
        for cs in ('B', 'E'):
            for icvn in ('00401', '00501'):
                sh.append(('chars', t, cs, icvn, None))
    sh.append(('types', None, 'B', '00401', None))
    for t in ('ID', 'AN'):
        for cs in ('B', 'E'):
            sh.append(('charhist', t, cs, '00401', None))
    return sh


DATECAT = ['20040229', '20030229', '19000229', '20000229', '18000101', '17991231', '20041301', '20040431',
           '20040430', '99991231', '2004010', '200401011', '2004010a', '',
           # halves that are dates of ANOTHER admissible length (6-digit, date+HHMM) or times: a range is two 8-digit dates
           '040229', '990101', '200402291200', '1200', '120000']


def gen(shard):
    label, t, cs, icvn, spec = shard
    if label == 'num':
        first, n = spec
        alpha = ['0', '5', '-', '.', 'a', ' ']
        if first == '':
            yield t, ''
            return
        for s in strings(alpha, n):
            yield t, first + s
    elif label == 'numframe':
        # every short numeric core with a line-break / blank / control / non-ASCII character before or after it
        # (regular-expression end anchors and str methods treat several of these specially)
        frames = ['\n', '\r', '\r\n', ' ', '\t', '\x00', '\x0b', '\x0c', '\x1c', '\x1f', '\x85', '\u2028', '\u0663', '$', '\\']
        for core in strings(['0', '5', '-', '.'], 4):
            for f in frames:
                yield t, core + f
                yield t, f + core
                yield t, core + f + f
                yield t, core + f + '5'
    elif label == 'ymd':
        for m in range(0, 14):
            for d in range(0, 33):
                yield t, '%s%02d%02d' % (spec, m, d)
    elif label == 'd6':
        for y in range(100):
            for m in range(0, 14):
                for d in range(0, 33):
                    yield t, '%02d%02d%02d' % (y, m, d)
    elif label == 'lens':
        for tt in ('D8', 'D6', 'DT', 'TM', 'RD8'):
            for n in range(0, 15):
                yield tt, ('20040102200401021200')[:n]
                yield tt, '1' * n
                yield tt, '0' * n
            # every admissible length with one non-digit at each position (a letter, a blank, a sign, a point)
            for n in (4, 6, 7, 8, 12, 17):
                base_ = ('200401021200' + '20040102')[:n] if n != 6 else '040102'
                for i in range(n):
                    for c in ('A', ' ', '-', '.', '_'):
                        yield tt, base_[:i] + c + base_[i + 1:]
                yield tt, 'UNKNWN'[:n].ljust(n, 'X')
            for bad in ['2004010a', 'a0040102', '2004 102', '20040102 ', ' 20040102', '2004-01-02', '20040102\n',
                        '٣' * 8, '2004010٣', '+2004010', '-2004010', '2004.102', '040102\n', '1200\n', '12٣٣']:
                yield tt, bad
    elif label == 'dt12':
        for md in ('0101', '0229', '0230', '1231', '1301', '0431'):
            for h in range(0, 25):
                for mi in range(0, 61):
                    yield t, '%s%s%02d%02d' % (spec, md, h, mi)
    elif label == 'tm':
        h = spec
        for mi in range(0, 61):
            yield t, '%02d%02d' % (h, mi)
            for s in range(0, 61):
                yield t, '%02d%02d%02d' % (h, mi, s)
                if mi in (0, 59, 60) and s in (0, 59, 60):
                    for dec in ['0', '9', '00', '99', '000', '5a', 'a', '.5', '1234']:
                        yield t, '%02d%02d%02d%s' % (h, mi, s, dec)
        for s in ('%02d' % h, '%02d1' % h, '%02d15' % h, '%02d155' % h, '%02d:15' % h, '%02d15 ' % h, ' %02d15' % h, '%02da5' % h, '%02d1a' % h, '%02d1500a' % h):
            yield t, s
    elif label == 'tmshort':
        for s in strings(DIG, 4):
            yield t, s
        for s in strings(['0', '2', '6', 'a', ' ', '-', '.'], 5):
            yield t, s
    elif label == 'rd8':
        for a in DATECAT:
            for b in DATECAT:
                for j in ('-', '--', '', ' - ', '- ', ' ', ':'):
                    yield t, a + j + b
        for a in DATECAT[:6] + DATECAT[14:16]:
            for b in DATECAT[:6] + DATECAT[14:16]:
                for c in DATECAT[:6] + DATECAT[14:16]:
                    yield t, a + '-' + b + '-' + c
        for s in ('-', '--', '---', '20040102-', '-20040102', '-20040102-20040103', '20040102-20040103-'):
            yield t, s
    elif label == 'chars':
        cps = list(range(0, 0x180)) + [0x2028, 0x3000, 0xFF21, 0x1F600, 0x0663, 0x212A]
        for cp in cps:
            c = chr(cp)
            for s in (c, 'A' + c, c + 'A', 'A' + c + 'B', c * 2, 'AB1 ' + c):
                yield t, s
        yield t, ''
        for s in strings(['A', 'a', ' ', '^', '`', '~', '\n'], 4):
            yield t, s
    elif label == 'types':
        for tt in (None, '', 'B', 'XX', 'X', 'Z9', 'D', 'T', 'AN ', 'id'):
            for s in ('', 'A', '1', '-', '20040102', '\x00', '\n', 'a b'):
                for c2 in ('B', 'E'):
                    yield (tt, c2), s


def work(shard):
    from pyx12 import validation
    label, t0, cs, icvn, spec = shard
    P = core.Part()
    if label == 'charhist':
        # every code point, embedded six ways; the same string under both versions, in both orders (alternating by variant)
        cps = list(range(0x20, 0x80)) + [0x09, 0x0A, 0xA0, 0xE9]
        for cp in cps:
            c = chr(cp)
            for k, v in enumerate((c, 'A' + c, c + 'A', 'A' + c + 'B', c * 2, 'AB1 ' + c)):
                seq = ['00401', '00501', '00401'] if k % 2 == 0 else ['00501', '00401', '00501']
                P.n += len(seq)
                r = eval_seq(v, t0, cs, seq)
                P.out('charhist|%s|%s|%s' % (t0, cs, ref(v, t0, cs, '00401') == ref(v, t0, cs, '00501')))
                for key, m in r:
                    P.bad(key, {'v': v, 't': t0, 'cs': cs, 'seq': seq}, m)
        return P
    for t, v in gen(shard):
        c2 = cs
        if isinstance(t, tuple):
            t, c2 = t
        P.n += 1
        exp = ref(v, t, c2, icvn)
        try:
            got = validation.IsValidDataType(v, t, c2, icvn)
            bad = exp is not None and bool(got) != exp
        except Exception:
            got = 'raise'
            bad = True
        P.out('%s|%s|%s|exp=%s' % (label, t, c2 if t in ('ID', 'AN') else '', exp))
        if bad:
            case = {'v': v, 't': t, 'cs': c2, 'icvn': icvn}
            for k, m in evaluate(case):
                P.bad(k, case, m)
        elif P.n % 5000 == 1:
            P.sample({'v': v, 't': t, 'cs': c2, 'icvn': icvn, 'accepted': got}, cap=1)
    return P


def run(R):
    shards = space('thorough' if R.thorough else R.tier)
    R.bounds = {'numeric': 'all strings of length <= %d over {0,5,-,.,a,SP} (+ leading +); every core <= 4 over {0,5,-,.} framed by LF, CR, CRLF, SP, HT, NUL, VT, FF, FS, US, NEL, LS, ARABIC-INDIC 3, $, backslash (before, after, doubled, followed by a digit)' % (7 if R.thorough else 6),
                'dates': 'every YYYYMMDD for 16 boundary years x months 00..13 x days 00..32; every YYMMDD',
                'times': 'every HHMM, HHMMSS (HH 00..24, MM/SS 00..60), decimals, all digit strings <= 4',
                'ranges': 'all pairs of a 19-value catalogue (8-, 6-, 12-digit dates, times, malformed) x 7 joiners, all triples of 8',
                'chars': 'every code point 0..0x17F + 6 beyond, alone and embedded, x {B,E} x {00401,00501}',
                'charhist': 'every code point 0x20..0x7F (+4) embedded six ways, asked under both versions in one process in both orders (3-step histories)'}
    R.assumptions = ['character tables and value languages are taken from the property statement / ASC X12 basic and extended sets',
                     'charset settings other than B/E and non-string values are outside the quantifier']
    R.pmap(work, shards)
    return R.finish(LEVEL, 'complete enumeration of each bounded language; an outcome is distinct by (sub-space, type, charset, expected verdict)',
                    exhaustive=True, extra={'states': R.total.n, 'transitions': R.total.n, 'traces_validated_against_impl': R.total.n})
