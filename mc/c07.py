"""
C07 - validation is total: any input yields a verdict or a documented refusal.
E1: every single (quick) / pair of (thorough, minimal documents) structural mutation of base documents,
every prefix and every single-character substitution of two small documents, all short strings, x
output-sink subsets x charset; three entry points (validator, plain reader, context reader).
Oracle: bool, or X12Error iff some ISA is malformed, or map-not-found EngineError iff the key is absent from maps.xml.
"""
import io, sys, itertools
from mc import core, corpus, ref, gen, grammar as G

ID = 'C07'
LEVEL = 'fault_enumeration'
SINKSETS = [(), ('ack',), ('html',), ('xml',), ('ack', 'html'), ('ack', 'xml'), ('html', 'xml'), ('ack', 'html', 'xml')]


# ----- reference side: which refusals are documented -----------------------------------------------
def isa_malformed(text):
    """the first 106 characters are not a well-formed ISA (16 elements, delimiters distinct and not used inside
    the header's own fields), or a later ISA has not 16 elements"""
    if not ref.header_ok(text):
        return True
    seg, ele, sub = ref.delims(text)
    if len({seg, ele, sub}) < 3:
        return True
    h = text[:106]
    if len(h[:105].split(ele)) != 17 or seg in h[:105] or sub in h[:104] or seg.isalnum() or ele.isalnum():
        return True
    for piece in text.split(seg):
        p = piece.lstrip('\r\n').lstrip(' \r\n')
        if p.split(ele)[0] == 'ISA':
            if len(p.split(ele)) != 17:
                return True
    return False


def value(parts, i, sub):
    """element i as the library reports it: components joined, trailing empty components dropped"""
    if len(parts) <= i:
        return None
    c = parts[i].split(sub)
    while len(c) > 1 and c[-1] == '':
        c.pop()
    return sub.join(c)


def map_keys_absent(text):
    """is there a (ISA12, GS08, GS01[, BHT02]) selection in the text for which maps.xml has no entry?"""
    if not ref.header_ok(text):
        return False
    idx = G.index()
    seg, ele, sub = ref.delims(text)
    icvn = None; vriic = None; fic = None
    for piece in text.split(seg):
        p = piece.lstrip('\r\n').lstrip(' \r\n').split(ele)
        if p[0] == 'ISA' and len(p) > 12:
            icvn = p[12]
        elif p[0] == 'GS':
            fic = value(p, 1, sub)
            vriic = value(p, 8, sub)
            if not any(e[0] == icvn and e[1] == vriic and e[2] == fic for e in idx):
                return True
        elif p[0] == 'BHT' and vriic in ('004010X094', '004010X094A1'):
            tspc = value(p, 2, sub)
            if not any(e[0] == icvn and e[1] == vriic and e[2] == fic and e[3] == tspc for e in idx):
                return True
    return False


def classify(exc, text):
    """-> None if the exception is a documented refusal, else a finding tag"""
    name = type(exc).__name__
    if name == 'X12Error' and isa_malformed(text):
        return None
    if name == 'EngineError' and 'Map not found' in str(exc) and (map_keys_absent(text) or isa_malformed(text)):
        return None
    return '%s@%s' % (name, core.where(exc))


# ----- the three entry points ---------------------------------------------------------------------------
def ep_validate(text, sinks, charset):
    from mc import pipe
    pipe.stub_clock()
    o = pipe.run(text, sinks=sinks, charset=charset, want_nodes=False)
    if o.exc:
        tag = classify(o.exc_obj, text)
        if tag:
            return [('C07|validate|%s' % tag, 'x12n_document(sinks=%s, charset=%s) raised %r' % ('+'.join(sinks) or 'none', charset, o.exc_obj))]
        return []
    if o.verdict not in (True, False):
        return [('C07|validate|verdict is not a boolean', repr(o.verdict))]
    if o.tree_exc:
        return [('C07|validate|error tree cannot be visited %s' % o.tree_exc, 'visitor raised %s' % o.tree_exc)]
    return []


def ep_reader(text):
    import pyx12.x12file
    try:
        r = pyx12.x12file.X12Reader(io.StringIO(text))
        n = 0
        for seg in r:
            r.pop_errors()
            n += 1
            if n > 100000:
                return [('C07|reader|does not terminate', '')]
        r.cleanup()
        r.pop_errors()
    except Exception as e:
        tag = classify(e, text)
        if tag:
            return [('C07|reader|%s' % tag, 'X12Reader iteration raised %r' % e)]
    return []


def ep_context(text, loop_id):
    import pyx12.x12context, pyx12.params, pyx12.error_handler
    try:
        p = pyx12.params.params()
        errh = pyx12.error_handler.errh_null()
        rd = pyx12.x12context.X12ContextReader(p, errh, io.StringIO(text))
        n = 0
        for node in rd.iter_segments(loop_id):
            n += 1
            for s in node.iterate_segments():
                pass
            if n > 100000:
                return [('C07|context|does not terminate', '')]
    except Exception as e:
        tag = classify(e, text)
        if tag:
            return [('C07|context[%s]|%s' % ('loop' if loop_id else 'None', tag), 'X12ContextReader.iter_segments(%r) raised %r' % (loop_id, e))]
    return []


def run_text(text, sinksets, charsets, loop_ids, entry_points=('validate', 'reader', 'context')):
    v = []
    if 'validate' in entry_points:
        for sinks in sinksets:
            for cs in charsets:
                v += ep_validate(text, tuple(sinks), cs)
    if 'reader' in entry_points:
        v += ep_reader(text)
    if 'context' in entry_points:
        for l in loop_ids:
            v += ep_context(text, l)
    seen = set(); out = []
    for k, m in v:
        if k not in seen:
            seen.add(k); out.append((k, m))
    return out


def evaluate(case):
    return run_text(case['text'], case['sinksets'], case['charsets'], case['loop_ids'])


# ----- enumeration -----------------------------------------------------------------------------------------
def base_docs(thorough):
    out = []
    quick_maps = ('270.4010.X092.A1.xml', '277U.4010.X070.xml', '278.4010.X094.27.A1.xml', '278.4010.X094.A1.xml', '820.5010.X218.xml',
                  '834.4010.X095.A1.xml', '835.5010.X221.A1.xml', '837.4010.X098.A1.xml', '837.5010.X222.A1.xml', '997.4010.xml', '999.5010.xml')
    for e in corpus.one_entry_per_map():
        if not thorough and e[4] not in quick_maps:
            continue
        d = corpus.build_ok(e, {})
        if d is not None:
            loops = sorted(set(lp[-1][0].rsplit('/', 1)[-1] for lp in d.lpaths if len(lp) > 3))
            out.append(('min:' + e[4], d.text(eol='\n'), loops[:4] or ['ST_LOOP']))
        if e[4] in ('997.4010.xml', '999.5010.xml'):
            # the acknowledgement maps name loops like segments (AK2, AK3): a document that has them, read with each of them
            d = corpus.build_ok(e, {'all': True})
            if d is not None:
                loops = sorted(set(lp[-1][0].rsplit('/', 1)[-1] for lp in d.lpaths if len(lp) > 3))
                out.append(('all:' + e[4], d.text(eol='\n'), loops[:6] or ['ST_LOOP']))
    for lab, txt, info in corpus.suite_docs():
        if (thorough and len(txt) <= 3200) or len(txt) <= 700:
            out.append((lab, txt, ['2300'] if '837' in lab or 'simple' in lab else ['ST_LOOP']))
    for lab, d, info in corpus.shape_docs():
        if (thorough and lab.endswith('2x2x2')) or lab.endswith('1x2x1:bad0'):
            out.append((lab, d.text(eol='\n'), ['ST_LOOP']))
    return out


def config_docs():
    out = base_docs(True)
    out = [b for b in out if not b[0].startswith('suite:')]
    for lab, txt, info in corpus.suite_docs():
        if True:
            out.append((lab, txt, ['2300'] if '837' in lab or 'simple' in lab else ['ST_LOOP']))
    return out


SMALL = None


def small_docs():
    e834 = [e for e in corpus.one_entry_per_map() if e[4] == '834.4010.X095.A1.xml'][0]
    e999 = [e for e in corpus.one_entry_per_map() if e[4] == '997.4010.xml'][0]
    return [('small:834', corpus.build_ok(e834, {}).text(eol=''), ['2000']), ('small:997', corpus.build_ok(e999, {}).text(eol='\n'), ['ST_LOOP'])]


ITEMS = {}
THOROUGH = False


def materialise(thorough):
    bases = base_docs(thorough)
    m1 = []
    for lab, txt, loops in bases:
        for ml, mt in corpus.mutations(txt):
            m1.append(('%s|%s' % (lab, ml), mt, loops))
    ITEMS['mut1'] = m1
    ch = []
    for lab, txt, loops in small_docs():
        for n in range(0, len(txt) + 1):
            ch.append(('%s|prefix%d' % (lab, n), txt[:n], loops))
        seg, ele, sub = ref.delims(txt)
        for i in range(len(txt)):
            for c in (seg, ele, sub, ' ', '\n', 'A', '\x00', '\t', '\xe9', '\u0663', '\u2028', '%', '{'):
                if txt[i] != c:
                    ch.append(('%s|subst%d:%r' % (lab, i, c), txt[:i] + c + txt[i + 1:], loops))
    ITEMS['char'] = ch
    st = []
    hdr = ref.isa()
    alpha = ['I', 'S', 'A', '*', '~', ' ', '\n']
    for n in range(0, 5):
        for tup in itertools.product(alpha, repeat=n):
            s = ''.join(tup)
            st.append(('str|' + repr(s), s, [None]))
            st.append(('hdr+str|' + repr(s), hdr + s, [None]))
    for s in ('ISA', 'ISA*', hdr[:105], hdr[:106], hdr + 'GS', hdr + 'GS*HC~', hdr.replace('00401', '00400'), hdr.replace('00401', '     '),
              hdr.replace('*', '~'), hdr[:-1] + '*', hdr[:-2] + '~~'):
        st.append(('special|' + repr(s[-12:]), s, [None]))
    ITEMS['strings'] = st
    ITEMS['configs'] = config_docs()
    # every sequence of envelope / body segments up to a depth after a well-formed ISA (the arrangements that single
    # mutations of a well-formed document cannot reach: several missing headers at once, trailers before headers, ...)
    env = []
    segs = {'ISA': ref.isa(ctl='000000002')[:-1], 'GS': 'GS*HC*S*R*20040102*1200*1*X*004010X098A1', 'ST': 'ST*837*0001', 'X': 'BHT*0019*00*A*20040102*1200*CH',
            'SE': 'SE*2*0001', 'GE': 'GE*1*1', 'IEA': 'IEA*1*000000001', 'HL': 'HL*1**20*1'}
    segs['TA1'] = 'TA1*000000001*040102*1200*A*000'
    names = ['ISA', 'GS', 'ST', 'X', 'SE', 'GE', 'IEA', 'TA1'] + (['HL'] if thorough else [])
    for n in range(0, (5 if thorough else 4) + 1):
        for tup in itertools.product(names, repeat=n):
            env.append(('envseq|' + '-'.join(tup), ref.isa() + '\n' + ''.join(segs[k] + '~\n' for k in tup), ['ST_LOOP', 'GS_LOOP', 'ISA_LOOP']))
    ITEMS['envseq'] = env
    # every element value of the base documents replaced by each hostile value (multi-hyphen ranges, braces, format
    # directives, backslash, signs without digits, exponents, blanks, zero / all-nine dates, 300 characters)
    vm = []
    for lab, txt, loops in bases:
        if not (lab.startswith('min:') or (thorough and len(txt) <= 1500)):
            continue
        for ml, mt in corpus.value_mutations(txt):
            vm.append(('%s|%s' % (lab, ml), mt, loops))
    # ... and, on one all-filled / last-code document per map (these carry RD8, TM, DT qualified values), the values
    # governed by a date/time format qualifier
    for e in corpus.one_entry_per_map():
        if not thorough and e[4] not in ('837.4010.X098.A1.xml', '837.5010.X222.A1.xml', '835.5010.X221.A1.xml', '834.4010.X095.A1.xml', '277.5010.X214.xml', '278.4010.X094.A1.xml'):
            continue
        for pname, plan in (('all-filled-last', {'all': True, 'fill_all': True, 'code': 'last'}), ('all-filled', {'all': True, 'fill_all': True})):
            dd = corpus.build_ok(e, plan)
            if dd is None:
                continue
            for ml, mt in corpus.governed_value_mutations(dd.text(eol='\n')):
                vm.append(('%s:%s|%s' % (pname, e[4], ml), mt, ['ST_LOOP']))
            # composites cut short (the all-filled documents carry every composite of the map), once per (segment id, element, length)
            seen_cut = set()
            for ml, mt in corpus.mutations(dd.text(eol='\n')):
                if ml.startswith('cut-composite'):
                    k = (ml.split('@')[0], ml.split(':')[1])
                    if k not in seen_cut:
                        seen_cut.add(k)
                        vm.append(('%s:%s|%s' % (pname, e[4], ml), mt, ['ST_LOOP']))
    # a LATER interchange header: every field of the second ISA of two-interchange documents replaced by hostile values
    # and by width-preserving ones (other / unlisted versions, blanks): only the first ISA is vetted when the file is opened
    for e in corpus.one_entry_per_map():
        if e[4] not in ('834.4010.X095.A1.xml', '999.5010.xml'):
            continue
        dd = corpus.build_ok(e, {'interchanges': 2})
        if dd is None:
            continue
        txt = dd.text(eol='\n')
        d3, segs3, tail3 = corpus.split_segments(txt)
        idx = [i for i, x in enumerate(segs3) if x.startswith('ISA' + d3[1])][1]
        parts = segs3[idx].split(d3[1])
        for j in range(1, len(parts)):
            w = len(parts[j])
            vals = list(corpus.HOSTILE) + ['0' * w, ' ' * w, 'A' * w, '9' * w]
            if j == 12:
                vals += ['00402', '00200', '00400', '00501', '00401', '0040A']
            for v in vals:
                if v == parts[j] or any(x in v for x in d3):
                    continue
                p2 = list(parts); p2[j] = v
                vm.append(('isa2:%s|value@%d:ISA%02d=%r' % (e[4], idx, j, v[:12]), corpus.join_segments(d3, segs3[:idx] + [d3[1].join(p2)] + segs3[idx + 1:]), ['ST_LOOP']))
    ITEMS['values'] = vm
    # one skeleton interchange per entry of maps.xml: every map the index names must load (or be refused as documented)
    mk = []
    for (icvn, vriic, fic, tspc, fname, abbr) in G.index():
        st = 'ST*%s*0001' % abbr + ('*' + vriic if icvn == '00501' else '')
        body = ['GS*%s*S*R*20040102*1200*1*X*%s' % (fic, vriic), st] + (['BHT*0019*%s*A*20040102*1200' % tspc] if tspc else []) + \
               ['SE*%d*0001' % (3 if tspc else 2), 'GE*1*1', 'IEA*1*000000001']
        mk.append(('mapkey|%s' % fname, ref.isa(icvn) + '\n' + ''.join(x + '~\n' for x in body), ['ISA_LOOP', 'GS_LOOP', 'ST_LOOP']))
    ITEMS['mapkeys'] = mk
    if thorough:
        # pairs of mutations: second applied to the result of the first, on three small minimal documents, restricted to
        # the operators that change the envelope / segment structure (the others are covered singly on every document)
        m2 = []
        keep1 = ('delete', 'duplicate', 'swap', 'truncate-after', 'insert-', 'bare', 'retag-ZZZ')
        keep2 = ('delete', 'duplicate', 'bare', 'count-x', 'insert-SE', 'insert-GE', 'insert-IEA', 'insert-ST', 'insert-GS')
        mins = [b for b in bases if b[0] in ('min:834.4010.X095.A1.xml', 'min:997.4010.xml', 'min:278.4010.X094.A1.xml')]
        for lab, txt, loops in mins:
            for (l1, t1) in corpus.mutations(txt):
                if not l1.startswith(keep1):
                    continue
                for (l2, t2) in corpus.mutations(t1):
                    if not l2.startswith(keep2):
                        continue
                    m2.append(('%s|%s|%s' % (lab, l1, l2), t2, loops))
        ITEMS['mut2'] = m2


def work(shard):
    family, part, nparts = shard
    # the library's XMLWriter.__del__ writes closing tags to a sink that is already gone when the XML sink aborted;
    # Python reports that as an 'Exception ignored in ...' line on stderr -- nothing escapes an entry point
    sys.unraisablehook = lambda *a, **k: None
    P = core.Part()
    for i, (lab, text, loops) in enumerate(ITEMS[family]):
        if i % nparts != part:
            continue
        if family == 'configs':
            sinksets, charsets = SINKSETS, ['B', 'E']
        elif family == 'mapkeys':
            sinksets, charsets = [(), ('ack', 'html', 'xml')], ['B', 'E']
        elif family in ('mut1', 'char'):
            sinksets, charsets = ([(), ('ack', 'html', 'xml')] if THOROUGH else [('ack', 'html', 'xml')]), ['E']
        elif family == 'mut2':
            sinksets, charsets = [('ack', 'html', 'xml')], ['E']
        else:
            sinksets, charsets = [('ack', 'html', 'xml')], ['E']
        lids = [None] + [l for l in loops if l]
        P.n += 1
        v = run_text(text, sinksets, charsets, lids)
        P.out('%s|%s' % (family, (lab.split('|')[1].split('@')[0].split(':')[0][:18] if family != 'envseq' else str(lab.count('-'))) if '|' in lab else lab[:14]))
        for k, m in v:
            P.bad(k, {'text': text, 'sinksets': [list(s) for s in sinksets], 'charsets': charsets, 'loop_ids': lids, 'label': lab}, '%s: %s' % (lab, m))
        if not v and P.n % 997 == 1:
            P.sample({'label': lab, 'bytes': len(text)}, cap=1)
    return P


def run(R):
    global THOROUGH
    THOROUGH = R.thorough
    materialise(R.thorough)
    shards = []
    for fam in ITEMS:
        n = 64 if fam in ('mut1', 'mut2') else 32
        for p in range(n):
            shards.append((fam, p, n))
    R.cov['texts_per_family'] = dict((k, len(v)) for k, v in ITEMS.items())
    R.pmap(work, shards)
    R.bounds = {'mut1': 'every single structural mutation (delete, duplicate, swap, truncate, retag, bare, first element only, 20 / 100 extra elements, extra components, 9000-char element, orphan SE/GE/IEA/ST/GS/HL/LX with and without elements, inserted TA1 (good and bad) and unknown segment, empty/blank line, 5 bad counts) at every position of %d base documents, x sinks %s' % (len(base_docs(R.thorough)), '{none, all}' if R.thorough else '{all}'),
                'char': 'every prefix and every single-character substitution by {seg, ele, sub, SP, LF, A, NUL, HT, e-acute, ARABIC-INDIC DIGIT THREE, LINE SEPARATOR, %, {} of 2 small documents',
                'strings': 'all strings <=4 over {I,S,A,*,~,SP,LF}, alone and after a well-formed ISA; 11 special headers',
                'configs': 'every base document x 8 sink subsets x charset {B,E}',
                'envseq': 'every sequence of length <=%d over {ISA,GS,ST,body,SE,GE,IEA,TA1%s} after a well-formed ISA; context reader with loop id None, ST_LOOP, GS_LOOP, ISA_LOOP' % (5 if R.thorough else 4, ',HL' if R.thorough else ''),
                'values': 'every element and component of every segment of the %s replaced by each of %d hostile values; every field of the SECOND ISA of two two-interchange documents replaced by hostile and width-preserving values (incl. other and unlisted versions); plus every composite cut short to its first k components (with and without the dangling separator) and every value governed by a date/time format qualifier (D8, RD8, TM, DT, D6) in the all-filled first-code and last-code documents of %s' % ('minimal documents and suite documents <= 1500 bytes' if R.thorough else 'minimal documents', len(corpus.HOSTILE), 'every map' if R.thorough else '6 maps'),
                'mapkeys': 'one skeleton interchange per entry of maps.xml (%d), sinks {none, all} x charset {B,E}, context reader with None / ISA_LOOP / GS_LOOP / ST_LOOP' % len(ITEMS['mapkeys']),
                'mut2': 'every pair of structural mutations (first in delete/duplicate/swap/truncate/insert-orphan/bare/retag, second in delete/duplicate/bare/bad count/orphan header or trailer) of three minimal documents' if R.thorough else 'not run in quick'}
    R.assumptions = ['documented refusals: X12Error iff the reference finds an ISA that is not well formed; EngineError "Map not found" iff the (ISA12, GS08, GS01[, BHT02]) key is absent from my reading of maps.xml',
                     'the context reader is driven with loop id None and up to four (acknowledgement maps: six) loop ids occurring in the document']
    return R.finish(LEVEL, 'one text per execution through three entry points; distinct = (family, mutation operator)', exhaustive=True)
