"""
C11 - the writer always emits balanced envelopes with correct counts.

E2: breadth-first search over write histories on the real pyx12.x12file.X12Writer, paired with a list
model written from the statement.  A history is [('CFG', i), ev1, ev2, ...]; every transition builds a
fresh writer over an io.StringIO, replays the history, compares the text emitted so far with the model,
then calls Close() on that writer and compares the closed text with the model, checks the ISA
delimiters, and re-reads the closed text with the real X12Reader (no isa/gs/st error code, nothing at
cleanup; HL codes exactly those of the C04 recount).  States are merged on
(configuration, writer attributes, model summary); the emitted text is compared before it is dropped.

A second, cheap part replays the same step function over every prefix of long regular documents
(several interchanges x groups x sets, one trailer policy per level) which are deeper than the BFS bound.

The model never asks pyx12 anything: well-nestedness, control numbers, true counts and the expected
text come from the list model below; the envelope verdict on the expected text is cross-checked with
ref.nests / ref.recount (a disagreement there is a harness error, not a finding).
"""
import io, itertools
from mc import core, ref, bfs

ID = 'C11'
LEVEL = 'model_checking'
ENVK = ('isa', 'gs', 'st')
ENV = {'isa': {'001', '021', '025', '023', '024'}, 'gs': {'3', '4', '5', '6'}, 'st': {'2', '3', '4', '23'}, 'seg': {'HL1', 'HL2', 'LX'}}
HDR = {'SE': 'ST', 'GE': 'GS', 'IEA': 'ISA'}
TRL = {'ST': 'SE', 'GS': 'GE', 'ISA': 'IEA'}
STD = ('~', '*', ':')

# (seg_term, ele_term, subele_term, repetition_term) x eol x version x delimiters of the Segment objects
# handed to Write(): 'std' ~ * :, 'own' the writer's, 'clash_rep' component separator = the writer's
# repetition separator, 'clash_sub' element separator = the writer's component separator
DELIMS = [('~', '*', ':', '^'), ('!', '|', '>', '+'), ('\n', '*', '\\', '^')]
CONFIGS = [d + (eol, v, 'std') for d in DELIMS for eol in ('\n', '') for v in ('00401', '00501')]
N_MAIN = len(CONFIGS)
CONFIGS += [d + (eol, v, src) for src in ('own', 'clash_rep', 'clash_sub') for d in DELIMS for eol in ('\n', '') for v in ('00401', '00501')
            if not (src == 'own' and d[:3] == STD)]


UNIQ = (('gs', '6'), ('st', '23'))        # 'control number not unique': what the ('GS','dup') / ('ST','dup') events earn, and nothing else does


def src_delims(cfg):
    """-> (seg, ele, sub, rep) the caller's Segment objects are built with"""
    seg, ele, sub, rep, eol, v, src = cfg
    if src == 'std':
        d = STD
    elif src == 'own':
        d = (seg, ele, sub)
    elif src == 'clash_rep':
        d = ('~', '*', rep)
    else:
        d = ('~', sub, [c for c in ':>' if c != sub][0])
    return d + ([c for c in '^!+' if c not in d][0],)


def cfg_name(i):
    seg, ele, sub, rep, eol, v, src = CONFIGS[i]
    return 'writer(%r,%r,%r,rep=%r,eol=%r) %s segments-built-with%r' % (seg, ele, sub, rep, eol, v, src_delims(CONFIGS[i])[:3])


# ---------------------------------------------------------------------------------------------------
# list model (from the statement)
# ---------------------------------------------------------------------------------------------------
class Model(object):
    """scan of a history: the strings to Write (in the caller's delimiters, src_delims) and the expected output segments.
    A segment is [id, [[component, ...], ...]]."""

    def __init__(self, cfg):
        self.cfg = cfg
        self.inputs = []
        self.out = []
        self.stack = []          # (kind, control number, index of the header in out)
        self.n_isa = 0
        self.hl_n = 0; self.chain = (); self.hl_err = False
        self.synth = 0           # trailers the last step had to generate beyond the supplied one

    # -- which events keep the sequence well nested ------------------------------------------------
    def offered(self, trailer_variants):
        top = self.stack[-1][0] if self.stack else None
        evs = []
        if top is None:
            # a later interchange may be of the other version (ISA11 is a separator only in 00501)
            return [('ISA',)] + ([('ISA', 'other')] if self.n_isa else [])
        if top == 'ISA':
            evs.append(('GS',))
            evs.append(('GS', 'pad'))             # a zero-padded control number: GE02 repeats it as written
            if any(x[0] == 'GS' for x in self.out[self.stack[-1][2]:]):
                evs.append(('GS', 'dup'))         # the control number of the previous group again: an error for a reader, but still a group
        if top == 'GS':
            evs.append(('ST',))
            if any(x[0] == 'ST' for x in self.out[self.stack[-1][2]:]):
                evs.append(('ST', 'dup'))         # the control number of the previous set again: still a set of this group
        evs += [('X',), ('E',), ('T',), ('LS',), ('LE',)]          # T: free text with a character that is a separator elsewhere; LS / LE (bounded loop markers) are ordinary body segments for the writer
        if top == 'ST':
            evs.append(('HL', 'root'))
            if self.hl_n:
                evs.append(('HL', 'child'))
            evs.append(('HL', 'bad'))
        kinds = [k for k, _, _ in self.stack]
        for t in ('SE', 'GE', 'IEA'):
            if HDR[t] in kinds:
                for v in trailer_variants:
                    evs.append((t,) + v)
        # the closing call in the middle of a history: the writer goes on with the next interchange afterwards
        evs.append(('CL',))
        return evs

    def count_for(self, j):
        kind, cid, h = self.stack[j]
        if kind == 'ST':
            return len(self.out) - h + 1          # ST ... last segment, plus the SE itself
        want = 'ST' if kind == 'GS' else 'GS'
        return sum(1 for s in self.out[h:] if s[0] == want)

    def close_top(self):
        cnt = self.count_for(len(self.stack) - 1)
        kind, cid, h = self.stack.pop()
        self.out.append([TRL[kind], [[str(cnt)], [cid]]])

    def apply(self, pos, ev):
        seg, ele, sub, rep, eol, icvn, src = self.cfg
        sseg, sele, ssub, srep = src_delims(self.cfg)
        k = ev[0]
        self.synth = 0
        if k == 'CL':
            self.synth = len(self.stack)
            while self.stack:
                self.close_top()
            self.inputs.append(None)           # None = call Close() here
        elif k == 'ISA':
            assert not self.stack
            self.n_isa += 1
            cid = '%09d' % self.n_isa
            if len(ev) > 1:
                icvn = '00401' if icvn == '00501' else '00501'
            s = ref.isa(icvn=icvn, seg=sseg, ele=sele, sub=ssub, rep=srep, ctl=cid)     # the caller's delimiters
            self.inputs.append(s[:-1])
            eles = [[x] for x in s[:-1].split(sele)[1:]]
            eles[15] = [sub]
            if icvn == '00501':
                eles[10] = [rep]
            self.stack.append(('ISA', cid, len(self.out)))
            self.out.append(['ISA', eles])
            self.cur_icvn = icvn
        elif k == 'GS':
            assert self.stack[-1][0] == 'ISA'
            n = sum(1 for s in self.out[self.stack[-1][2]:] if s[0] == 'GS') + 1
            if len(ev) > 1 and ev[1] == 'dup':
                n -= 1
            cid = '%d' % (self.n_isa * 100 + n)
            if len(ev) > 1 and ev[1] == 'pad':
                cid = '00' + cid
            vers = '004010X098A1' if icvn == '00401' else '005010X222A1'
            parts = ['GS', 'HC', 'S', 'R', '20040608', '1333', cid, 'X', vers]
            self.inputs.append(sele.join(parts))
            self.stack.append(('GS', cid, len(self.out)))
            self.out.append(['GS', [[x] for x in parts[1:]]])
        elif k == 'ST':
            assert self.stack[-1][0] == 'GS'
            n = sum(1 for s in self.out[self.stack[-1][2]:] if s[0] == 'ST') + 1
            if len(ev) > 1:
                n -= 1
            cid = '%s%02d' % (self.stack[-1][1], n)
            self.inputs.append(sele.join(['ST', '837', cid]))
            self.stack.append(('ST', cid, len(self.out)))
            self.out.append(['ST', [['837'], [cid]]])
            self.hl_n = 0; self.chain = (); self.hl_err = False
        elif k == 'X':
            assert self.stack
            self.inputs.append(sele.join(['REF', 'N%d' % pos, 'B' + ssub + 'C']))
            self.out.append(['REF', [['N%d' % pos], ['B', 'C']]])
        elif k == 'T':
            # free text: in a 00401 interchange ^ is an ordinary character (there is no repetition separator), whatever the
            # writer's repetition_term is; where ^ is one of the delimiters in play a harmless text is used instead
            assert self.stack
            txt = 'A^B ^' if (self.cur_icvn == '00401' and '^' not in (seg, ele, sub, sseg, sele, ssub)) else 'A.B .'
            self.inputs.append(sele.join(['NTE', 'ADD', txt]))
            self.out.append(['NTE', [['ADD'], [txt]]])
        elif k in ('LS', 'LE'):
            assert self.stack
            self.inputs.append(sele.join([k, '2120']))
            self.out.append([k, [['2120']]])
        elif k == 'E':
            assert self.stack
            self.inputs.append(sele.join(['DTP', '%d' % pos, '', ssub.join(['D8', 'X', 'Y']), 'Z']))
            self.out.append(['DTP', [['%d' % pos], [''], ['D8', 'X', 'Y'], ['Z']]])
        elif k == 'HL':
            assert self.stack[-1][0] == 'ST'
            self.hl_n += 1
            if ev[1] == 'root':
                num, par = str(self.hl_n), ''
            elif ev[1] == 'child':
                assert self.hl_n > 1
                num, par = str(self.hl_n), str(self.hl_n - 1)
            else:
                num, par = '9', '7'
            self.inputs.append(sele.join(['HL', num, par, '20', '1']))
            self.out.append(['HL', [[num], [par], ['20'], ['1']]])
            if par != '':
                p = int(par)
                if p in self.chain:
                    self.chain = self.chain[:self.chain.index(p) + 1]
                else:
                    self.hl_err = True; self.chain = ()
            self.chain = self.chain + (self.hl_n,)
        else:
            kinds = [q for q, _, _ in self.stack]
            assert HDR[k] in kinds
            j = len(kinds) - 1 - kinds[::-1].index(HDR[k])
            true = self.count_for(j)
            if ev[1] == 'bare':
                self.inputs.append(k)
            else:
                cnt = {'ok': str(true), '+1': str(true + 1), '0': '0', 'x': 'x', 'empty': ''}[ev[1]]
                cid = self.stack[j][1] if ev[2] == 'own' else '77'
                self.inputs.append(sele.join([k, cnt, cid]))
            self.synth = len(self.stack) - 1 - j
            while len(self.stack) > j:
                self.close_top()

    def closed(self):
        """expected segments after Close(), and the number of trailers Close has to generate"""
        keep_out, keep_stack = self.out, self.stack
        self.out, self.stack = list(keep_out), list(keep_stack)
        n = len(self.stack)
        while self.stack:
            self.close_top()
        res = self.out
        self.out, self.stack = keep_out, keep_stack
        return res, n

    def summary(self):
        """everything future expectations depend on (the emitted text itself is dropped)"""
        cnts = tuple(self.count_for(j) for j in range(len(self.stack)))
        in_set = bool(self.stack) and self.stack[-1][0] == 'ST'
        return (tuple((k, c) for k, c, _ in self.stack), cnts, self.n_isa,
                (self.hl_n, self.chain, self.hl_err) if in_set else None)


def scan(hist):
    cfg = CONFIGS[hist[0][1]]
    m = Model(cfg)
    for pos, ev in enumerate(hist[1:]):
        m.apply(pos, ev)
    return m


def fmt(segs, cfg):
    seg, ele, sub, rep, eol, icvn, src = cfg
    return ''.join(ele.join([s[0]] + [sub.join(c) for c in s[1]]) + seg + eol for s in segs)


def flat(segs, sub):
    return [[s[0]] + [sub.join(c) for c in s[1]] for s in segs]


def parse(text, cfg):
    """the writer's text cut with the WRITER's delimiters (no pyx12) -> segments, or None"""
    seg, ele, sub, rep, eol, icvn, src = cfg
    pieces = text.split(seg)
    if pieces[-1].strip('\r\n') != '':
        return None
    out = []
    for p in pieces[:-1]:
        q = p.lstrip('\r\n')
        if q == '':
            continue
        parts = q.split(ele)
        if parts[0] == 'ISA':
            out.append(['ISA', [[x] for x in parts[1:]]])
        else:
            out.append([parts[0], [x.split(sub) for x in parts[1:]]])
    return out


def diff(got_text, want, cfg):
    """classify how the emitted text differs from the expected segment list; None when equal"""
    want_text = fmt(want, cfg)
    if got_text == want_text:
        return None
    seg, ele, sub, rep, eol, icvn, src = cfg
    got = parse(got_text, cfg)
    if got is None:
        return 'unterminated tail', 'text ends with an unterminated piece'
    if got == want:
        return 'layout', 'same segments, different terminator/eol layout'
    nt = lambda L: [s for s in L if s[0] not in HDR]
    if nt(got) != nt(want):
        g, w = nt(got), nt(want)
        for a, b in zip(g, w):
            if a != b:
                if a[0] == 'ISA' and b[0] == 'ISA' and len(a[1]) in (15, 16) and a[1][:10] + a[1][11:15] == b[1][:10] + b[1][11:15]:
                    if a[1][15:] != b[1][15:]:
                        return 'ISA16 is not the writer component separator', 'ISA16 written %r, writer has %r' % (a[1][15:], b[1][15:])
                    return 'ISA11 is not the writer repetition separator', 'ISA11 written %r, writer has %r' % (a[1][10], b[1][10])
                return 'non-trailer %s changed' % b[0], 'wrote %r for %r' % (a, b)
        return 'non-trailer segments lost-or-added', '%d non-trailer segments written, %d expected' % (len(g), len(w))
    tr = lambda L: [s for s in L if s[0] in HDR]
    g, w = tr(got), tr(want)
    if [s[0] for s in got] != [s[0] for s in want]:
        if len(g) < len(w):
            return 'trailer missing', 'trailers written %r, needed %r' % ([s[0] for s in g], [s[0] for s in w])
        if len(g) > len(w):
            return 'trailer extra', 'trailers written %r, needed %r' % ([s[0] for s in g], [s[0] for s in w])
        return 'trailer misplaced', 'segment ids %r, expected %r' % ([s[0] for s in got], [s[0] for s in want])
    for a, b in zip(g, w):
        if a != b:
            if len(a[1]) != 2:
                return '%s malformed' % b[0], 'wrote %r for %r' % (a, b)
            if a[1][1] != b[1][1]:
                return '%s control number' % b[0], 'wrote %r, header has %r' % (a[1][1], b[1][1])
            return '%s count' % b[0], 'wrote %r, true count %r' % (a[1][0], b[1][0])
    return 'other', 'texts differ'


# ---------------------------------------------------------------------------------------------------
# the real thing
# ---------------------------------------------------------------------------------------------------
def reread(text, cfg, want):
    """closed text through the real reader -> list of (what, msg)"""
    import pyx12.x12file
    seg, ele, sub, rep, eol, icvn, src = cfg
    bad = []
    try:
        r = pyx12.x12file.X12Reader(io.StringIO(text))
        per = []
        for s in r:
            per.append(sorted((e[0], e[1]) for e in r.pop_errors() if e[1] in ENV.get(e[0], ())))
        r.cleanup()
        end = sorted((e[0], e[1]) for e in r.pop_errors() if e[1] in ENV.get(e[0], ()))
    except Exception as e:
        return [('reread|raises %s@%s' % (type(e).__name__, core.where(e)), 'reader raised %r' % (e,))]
    if (r.seg_term, r.ele_term, r.subele_term) != (seg, ele, sub) or (icvn == '00501' and r.repetition_term != rep):
        bad.append(('reread|delimiters', 'reader sees %r, writer has %r' % ((r.seg_term, r.ele_term, r.subele_term, r.repetition_term), (seg, ele, sub, rep))))
    if len(per) != len(want):
        bad.append(('reread|segment count', 'reader yields %d segments, %d expected' % (len(per), len(want))))
        return bad
    # HL numbering and the uniqueness of the control numbers are the caller's business: the reader must say exactly what the
    # C04 recount says (nothing, unless the history repeats a control number: then the 'not unique' code and only that)
    exp, expend, loose = ref.recount(flat(want, sub))
    env = sorted(set(e for p in per for e in p if e[0] in ENVK))
    wenv = sorted(set(e for p in exp for e in p if e[0] in ENVK))
    if env != wenv:
        bad.append(('reread|envelope error ' + ','.join('%s/%s' % e for e in env), 'reader reports %r, the recount %r' % (env, wenv)))
    if end:
        bad.append(('reread|cleanup reports ' + ','.join('%s/%s' % e for e in end), 'cleanup reports %r' % (end,)))
    for i, p in enumerate(per):
        if i in loose:
            continue
        g = [e for e in p if e[0] == 'seg']
        w = sorted(e for e in exp[i] if e[0] == 'seg')
        if g != w:
            bad.append(('reread|HL verdict differs from recount', 'segment %d %s: reader %r, recount %r' % (i, want[i][0], g, w)))
            break
    return bad


def step(hist):
    """evaluate the history (its LAST event is the transition under test) -> (key or None, viols, outcome)"""
    import pyx12.x12file, pyx12.segment
    m = scan(hist)
    cfg = m.cfg
    seg, ele, sub, rep, eol, icvn, src = cfg
    evk = hist[-1][0]
    want_open = m.out
    want_closed, nclose = m.closed()
    outcome = '%s|synth%d|close%d' % (evk if evk != 'HL' else 'HL' + hist[-1][1], m.synth, nclose)
    # model self-check (harness error if it fails): the expected closed text is a clean interchange
    fw = flat(want_closed, sub)
    assert ref.nests(fw), fw
    exp, expend, loose = ref.recount(fw)
    assert not expend and not any(e[0] in ENVK and e not in UNIQ for p in exp for e in p), (fw, exp, expend)

    viols = []
    buf = io.StringIO()
    wr = pyx12.x12file.X12Writer(buf, seg, ele, sub, eol, rep)
    n = len(m.inputs)
    for i, s in enumerate(m.inputs):
        try:
            if s is None:
                wr.Close()
            else:
                wr.Write(pyx12.segment.Segment(s, *src_delims(cfg)))
        except Exception as e:
            if i < n - 1:
                raise AssertionError('prefix of an explored history raised %r' % (e,))
            return None, [('C11|write %s|raises %s@%s' % (evk, type(e).__name__, core.where(e)),
                           '%s: Write(%r) after %r raised %r' % (cfg_name(hist[0][1]), s, m.inputs[:-1], e))], 'exc'
    d = diff(buf.getvalue(), want_open, cfg)
    if d:
        viols.append(('C11|write|%s' % d[0], '%s: after writing %r: %s; text %r, expected %r'
                      % (cfg_name(hist[0][1]), m.inputs, d[1], buf.getvalue(), fmt(want_open, cfg))))
    st = (tuple(wr.loops), wr.gs_count, wr.st_count, wr.seg_count, wr.hl_count, tuple(wr.hl_stack), tuple(wr.isa_ids),
          tuple(wr.gs_ids), tuple(wr.st_ids), wr.lx_count, wr.cur_line, wr.isa_usage, wr.check_837_lx,
          wr.seg_term, wr.ele_term, wr.subele_term, wr.repetition_term, wr.eol)
    try:
        wr.Close()
    except Exception as e:
        viols.append(('C11|close|raises %s@%s' % (type(e).__name__, core.where(e)),
                      '%s: Close() after %r raised %r' % (cfg_name(hist[0][1]), m.inputs, e)))
        return None, viols, 'exc'
    text = buf.getvalue()
    if not d:
        d2 = diff(text, want_closed, cfg)
        if d2:
            viols.append(('C11|close|%s' % d2[0], '%s: Close() after writing %r: %s; text %r, expected %r'
                          % (cfg_name(hist[0][1]), m.inputs, d2[1], text, fmt(want_closed, cfg))))
    # the ISA carries the writer's delimiters (stated separately, so checked separately on the raw text)
    if viols:
        pass
    elif len(text) < ref.ISA_LEN or text[:3] != 'ISA' or ref.delims(text) != (seg, ele, sub) or \
            (icvn == '00501' and text[82] != rep) or text[84:89] != icvn:
        viols.append(('C11|close|first ISA does not carry the writer delimiters', '%s: text starts %r' % (cfg_name(hist[0][1]), text[:ref.ISA_LEN])))
    else:
        for k, msg in reread(text, cfg, want_closed):
            viols.append(('C11|' + k, '%s: Close() after writing %r gives %r: %s' % (cfg_name(hist[0][1]), m.inputs, text, msg)))
    if viols:
        return None, viols, outcome
    return (hist[0][1], st, m.summary()), [], outcome


# ---------------------------------------------------------------------------------------------------
# exploration
# ---------------------------------------------------------------------------------------------------
VARIANTS = {
    False: [('ok', 'own'), ('+1', 'own'), ('x', 'own'), ('ok', 'other'), ('x', 'other'), ('bare', 'own')],
    True: [('ok', 'own'), ('+1', 'own'), ('0', 'own'), ('x', 'own'), ('empty', 'own'), ('ok', 'other'), ('+1', 'other'), ('x', 'other'),
           ('bare', 'own')],
}
THOROUGH = False


def _expand(hist, thorough):
    m = scan(hist)
    out = []
    for ev in m.offered(VARIANTS[thorough]):
        key, viols, outcome = step(hist + [ev])
        out.append((ev, key, viols, outcome))
    return out


def expand_q(hist):
    return _expand(hist, False)


def expand_t(hist):
    return _expand(hist, True)


def norm(hist):
    return [tuple(e) for e in hist]


def evaluate(case):
    hist = norm(case['hist'])
    key, viols, outcome = step(hist)
    return viols


# -- part 2: long regular documents, every prefix -----------------------------------------------------
POLICY = ['ok', 'wrong', 'omit']


def regular(ci, ni, ng, ns, nb, pol, hl):
    """ni interchanges x ng groups x ns sets x nb body segments; pol = trailer policy for (SE, GE, IEA)"""
    h = [('CFG', ci)]

    def trailer(t, p, last):
        # a trailer may only be left out where an enclosing trailer or Close() follows (last child)
        if p == 'omit' and not last: p = 'wrong2'
        if p == 'ok': h.append((t, 'ok', 'own'))
        elif p == 'wrong': h.append((t, '+1', 'other'))
        elif p == 'wrong2': h.append((t, 'x', 'own'))
    for i in range(ni):
        h.append(('ISA',))
        for g in range(ng):
            h.append(('GS',))
            for s in range(ns):
                h.append(('ST',))
                for b in range(nb):
                    h.append(('HL', 'root' if b == 0 else 'child') if hl else ('X',))
                trailer('SE', pol[0], s == ns - 1)
            trailer('GE', pol[1], g == ng - 1)
        trailer('IEA', pol[2], i == ni - 1)
    return h


def regular_shards(thorough):
    shapes = [(ni, ng, ns, nb) for ni in (1, 2) for ng in (1, 2, 3) for ns in (1, 2, 3) for nb in ((0, 2) if not thorough else (0, 1, 3))]
    if not thorough:
        shapes = [s for s in shapes if s[1] * s[2] <= 6 and (s[0] == 1 or s[1] * s[2] <= 4)]
    out = []
    for ci in range(N_MAIN):
        for sh in shapes:
            out.append((ci, sh))
    return out


def work_regular(shard):
    ci, (ni, ng, ns, nb) = shard
    P = core.Part()
    seen = set(); seen_bad = set()
    for pol in itertools.product(POLICY, repeat=3):
        for hl in ((False, True) if nb else (False,)):
            h = regular(ci, ni, ng, ns, nb, pol, hl)
            for n in range(2, len(h) + 1):
                pre = h[:n]
                t = tuple(pre)
                if t in seen_bad:
                    break
                if t in seen:
                    continue
                seen.add(t)
                key, viols, outcome = step(pre)
                P.n += 1
                P.out('reg|' + outcome)
                for fk, msg in viols:
                    P.bad(fk, {'hist': pre, 'label': 'regular'}, msg)
                if viols:
                    seen_bad.add(t)
                    break
    P.sample({'label': 'regular', 'config': cfg_name(ci), 'shape': [ni, ng, ns, nb]}, cap=1)
    return P


def run(R):
    depth = 12 if R.thorough else 8
    init = [[('CFG', i)] for i in range(N_MAIN)]
    s1 = bfs.search(R, expand_t if R.thorough else expand_q, init, depth, 'bfs', max_states=4000000)
    depth2 = 8 if R.thorough else 6
    init2 = [[('CFG', i)] for i in range(N_MAIN, len(CONFIGS))]
    s2 = bfs.search(R, expand_t if R.thorough else expand_q, init2, depth2, 'bfs-src', max_states=4000000)
    shards = regular_shards(R.thorough)
    R.pmap(work_regular, shards)
    R.cov['searches'] = [s1, s2]
    R.bounds = {
        'bfs_depth_writes': depth, 'configurations': N_MAIN,
        'bfs_src_depth_writes': depth2, 'src_configurations': len(CONFIGS) - N_MAIN,
        'caller_segment_delimiters': ['std ~*:', 'own (the writer\'s)', 'clash_rep (component separator = writer repetition separator)', 'clash_sub (element separator = writer component separator)'],
        'delimiters(seg,ele,sub,rep)': [list(d) for d in DELIMS], 'eol': ['\n', ''], 'versions': ['00401', '00501'],
        'events': 'Write of ISA/GS/ST (fresh control numbers), body REF (composite), body DTP (interior empty element), HL root/child/mis-numbered, '
                  'SE/GE/IEA x supplied count %s x id {own,other}%s; Close() checked after every state'
                  % ('{true,true+1,0,x,empty}' if R.thorough else '{true,true+1,x}', ' plus bare trailer'),
        'regular_documents': {'shards': len(shards), 'shape': 'interchanges 1-2 x groups 1-3 x sets 1-3 x bodies, trailer policy {supplied ok, supplied wrong, omitted}^3, every prefix'},
    }
    R.assumptions = [
        'well nested = a header is written only directly inside its enclosing loop (ISA at top level, GS in ISA, ST in GS) and a trailer only while its header is open; '
        'a header written while a sibling loop is still open, an orphan trailer, and segments outside any interchange are left open by the statement and not offered',
        'Close() before anything was written is not compared (no interchange exists)',
        'data values handed to Write contain no delimiter of the writer or of the caller\'s Segment objects and no trailing empty element (trailing-empty trimming is C01/C20 matter); full depth uses Segment objects built with ~ * :, the three other caller delimiter choices are explored to the smaller depth',
        'the exact terminator+eol layout after each segment is taken from the shipped writer tests (seg + "~\\n")',
        'HL codes from the reader are compared with the C04 recount, not required to be absent (HL numbering is supplied by the caller)',
        'states are merged on (configuration, all writer attributes except sink and err_list, model summary); histories are replayed on a fresh writer for every transition',
    ]
    return R.finish(LEVEL, 'BFS over write histories + every prefix of regular multi-interchange documents; distinct = (event, trailers synthesised by the write, trailers synthesised by Close)',
                    exhaustive=True)
