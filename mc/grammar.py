"""
E3 base: an independent reading of maps.xml, the map files, dataele.xml and codes.xml with xml.etree.
Does NOT import pyx12.map_if.  Both schema styles (child elements / attributes) are handled by g().
"""
import os, re, functools
import xml.etree.ElementTree as et
from mc import core

MAPDIR = os.path.join(core.REPO, 'pyx12', 'map')


def g(e, k):
    v = e.get(k)
    return v if v else e.findtext(k)


class Node(object):
    kind = None

    def __repr__(self):
        return '<%s %s>' % (self.kind, getattr(self, 'path', self.id))


class Ele(Node):
    kind = 'ele'


class Comp(Node):
    kind = 'comp'


class Seg(Node):
    kind = 'seg'


class Loop(Node):
    kind = 'loop'


class Root(Node):
    kind = 'root'


@functools.lru_cache(None)
def dataele():
    d = {}
    for e in et.parse(os.path.join(MAPDIR, 'dataele.xml')).iter('data_ele'):
        d[e.get('ele_num')] = (e.get('data_type'), int(e.get('min_len')), int(e.get('max_len')))
    return d


@functools.lru_cache(None)
def extcodes():
    d = {}
    for c in et.parse(os.path.join(MAPDIR, 'codes.xml')).iter('codeset'):
        d[c.findtext('id')] = [x.text for x in c.iterfind('version/code')]
    return d


@functools.lru_cache(None)
def index():
    """[(icvn, vriic, fic, tspc, file, abbr)] in file order"""
    out = []
    for v in et.parse(os.path.join(MAPDIR, 'maps.xml')).iter('version'):
        for m in v.iterfind('map'):
            out.append((v.get('icvn'), m.get('vriic'), m.get('fic'), m.get('tspc'), (m.text or '').strip(), m.get('abbr')))
    return out


def map_files():
    return sorted(f for f in os.listdir(MAPDIR)
                  if re.match(r'^[0-9].*\.xml$', f))


def rd_ele(e, parent):
    n = Ele()
    n.id = e.get('xid'); n.de = g(e, 'data_ele'); n.usage = g(e, 'usage'); n.seq = int(g(e, 'seq'))
    n.regex = e.findtext('regex') or None
    n.name = g(e, 'name')
    v = e.find('valid_codes')
    n.codes = [c.text for c in v.findall('code')] if v is not None else []
    n.ext = v.get('external') if v is not None else None
    n.parent = parent
    return n


def rd_seg(e, parent):
    n = Seg()
    n.id = e.get('xid'); n.usage = g(e, 'usage'); n.pos = int(g(e, 'pos')); n.max = g(e, 'max_use')
    n.name = g(e, 'name')
    n.syntax = [s.text for s in e.findall('syntax')]
    n.parent = parent
    ch = {}
    for x in e.findall('element'):
        c = rd_ele(x, n); ch[c.seq] = c
    for x in e.findall('composite'):
        c = Comp()
        c.id = x.get('xid'); c.usage = g(x, 'usage'); c.seq = int(g(x, 'seq')); c.name = g(x, 'name')
        c.refdes = x.findtext('refdes') or c.id
        c.de = g(x, 'data_ele')
        c.parent = n
        c.children = [rd_ele(y, c) for y in x.findall('element')]
        ch[c.seq] = c
    n.children = [ch[k] for k in sorted(ch)]
    return n


def rd_loop(e, parent):
    n = Loop()
    n.id = e.get('xid'); n.usage = g(e, 'usage'); n.pos = int(g(e, 'pos')); n.repeat = g(e, 'repeat')
    n.type = e.get('type'); n.name = g(e, 'name')
    n.parent = parent
    ch = [rd_loop(x, n) for x in e.findall('loop')] + [rd_seg(x, n) for x in e.findall('segment')]
    n.children = sorted(ch, key=lambda c: c.pos)     # stable: loops before segments at one position
    return n


def _paths(n, prefix):
    n.path = (prefix + '/' + n.id) if n.kind != 'root' else ''
    for c in n.children:
        if c.kind in ('loop', 'seg'):
            if c.kind == 'loop':
                _paths(c, n.path)
            else:
                c.path = n.path + '/' + c.id


@functools.lru_cache(None)
def load(fname):
    r = et.parse(os.path.join(MAPDIR, fname)).getroot()
    n = Root()
    n.id = r.get('xid'); n.file = fname; n.parent = None
    ch = [rd_loop(x, n) for x in r.findall('loop')] + [rd_seg(x, n) for x in r.findall('segment')]
    n.children = sorted(ch, key=lambda c: c.pos)
    _paths(n, '')
    return n


def walk(n):
    """all nodes, depth first, map order"""
    yield n
    for c in getattr(n, 'children', []):
        for x in walk(c):
            yield x


def segments(root):
    return [n for n in walk(root) if n.kind == 'seg']


def maxrep(n):
    v = n.max if n.kind == 'seg' else n.repeat
    if v in (None, '', '>1'):
        return 10 ** 9
    return int(v)


def qual_ele(seg):
    """the element whose code list the matcher reads to tell same-id siblings apart (X12 convention:
    first element if a coded ID; ENT02; first component of a leading composite; HL03)"""
    ch = seg.children
    if not ch:
        return None, None
    de = dataele()
    c0 = ch[0]
    if c0.kind == 'ele' and c0.codes and de.get(c0.de, ('',))[0] == 'ID':
        return c0, '01'
    if seg.id == 'ENT' and len(ch) > 1 and ch[1].kind == 'ele' and ch[1].codes:
        return ch[1], '02'
    if c0.kind == 'comp' and c0.children and c0.children[0].codes:
        return c0.children[0], '01-1'
    if seg.id == 'HL' and len(ch) > 2 and ch[2].kind == 'ele' and ch[2].codes:
        return ch[2], '03'
    return None, None


def syntax_parts(text):
    return text[0], [int(text[k:k + 2]) for k in range(1, len(text) - 1, 2)]
