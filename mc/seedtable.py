"""development helper: regenerate the table of DESIGN.md section 12 from seeded/*/meta.json
usage: python -m mc.seedtable   (rewrites the rows between the table header and the first blank line after it)"""
import os, json, glob
V = os.path.dirname(os.path.dirname(os.path.abspath(__file__)))
HEAD = '| seeded change (directory) | property | what was changed | what it needs to manifest | caught by (quick tier) |'


def cell(s, n):
    s = ' '.join(str(s or '').split()).replace('|', '/')
    return s[:n]


def rows():
    out = []
    first = missed = 0
    for d in sorted(glob.glob(os.path.join(V, 'seeded', '*'))):
        if not os.path.isdir(d):
            continue
        m = json.load(open(os.path.join(d, 'meta.json')))
        prop = m['property']
        cr = m.get('checks_run', {})
        at_first = sorted(c for c, v in cr.items() if not c.endswith('_after_strengthening') and v.get('exit') == 1)
        after = sorted(c[:-len('_after_strengthening')] for c in cr if c.endswith('_after_strengthening'))
        caught = ', '.join(at_first)
        if after:
            caught += ' ; ' + ', '.join(after) + ' after strengthening'
        if prop in at_first:
            first += 1
        else:
            missed += 1
        out.append('| `%s` | %s | %s | %s | %s |' % (os.path.basename(d), prop, cell(m.get('summary'), 150), cell(m.get('needs'), 140), caught))
    return out, first, missed


def main():
    p = os.path.join(V, 'DESIGN.md')
    lines = open(p).read().split('\n')
    i = lines.index(HEAD)
    j = i + 2
    while j < len(lines) and lines[j].startswith('|'):
        j += 1
    r, first, missed = rows()
    lines[i + 2:j] = r
    open(p, 'w').write('\n'.join(lines))
    print('rows=%d caught by own check at first trial=%d first missed=%d' % (len(r), first, missed))


if __name__ == '__main__':
    main()
