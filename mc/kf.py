"""helper (development time only): python -m mc.kf fixed C14 <commit> <key> <what> | known C16 <key> <what>"""
import sys, json, os
p = os.path.join(os.path.dirname(os.path.dirname(os.path.abspath(__file__))), 'known_findings.json')
d = json.load(open(p))
kind, pid = sys.argv[1], sys.argv[2]
if kind == 'fixed':
    commit, key, what = sys.argv[3:6]
    d['fixed'].append({'property': pid, 'commit': commit, 'key': key, 'line': 'fixed: property=%s %s %s' % (pid, commit, what)})
else:
    key, what = sys.argv[3:5]
    d['known'].append({'property': pid, 'key': key, 'what': what})
json.dump(d, open(p, 'w'), indent=1)
