"""
C05 - verdict, reported errors and acknowledgement always agree.
Exhaustive over the shared corpora (conformant documents of every map, every C03 fault kind per map,
interchange x group x set shapes {1,2,3}^3 with and without a faulty set, the suite's own sources,
all single structural mutations of two base documents); oracle = recount from the error tree (read
through the visitor protocol) and from the source text (reference tokenizer).
"""
from mc import core, corpus, ref, gen

ID = 'C05'
LEVEL = 'exploration'

AK3_CODES = ('1', '2', '3', '4', '5', '6', '7', '8')
AK4_CODES = ('1', '2', '3', '4', '5', '6', '7', '8', '9', '10')


def source_structure(text):
    """[(isa fields, [ (gs fields, ge01 or None, [ (st01, st02) ]) ])] from the reference tokenizer"""
    toks, d = ref.tokenize(text)
    isas = []
    for t in toks:
        if t.id is None:
            continue
        e = [(':'.join(c) if t.id != 'ISA' else c[0]) for c in t.eles]
        if t.id == 'ISA':
            isas.append({'isa': e, 'gs': []})
        elif t.id == 'GS' and isas:
            isas[-1]['gs'].append({'gs': e, 'ge01': None, 'st': [], 'closed': False})
        elif t.id == 'ST' and isas and isas[-1]['gs']:
            isas[-1]['gs'][-1]['st'].append({'st01': e[0] if e else None, 'st02': e[1] if len(e) > 1 else None, 'st03': e[2] if len(e) > 2 else None})
        elif t.id == 'GE' and isas and isas[-1]['gs']:
            isas[-1]['gs'][-1]['ge01'] = e[0] if e else None
            isas[-1]['gs'][-1]['closed'] = True
    return isas


def ta1_in_place(flat):
    """TA1 is an interchange-level segment: inside a functional group or a transaction set it ends them as far as the
    map is concerned (the walker leaves GS_LOOP for /ISA_LOOP/TA1), exactly like an orphan trailer would; such input
    does not nest properly"""
    depth = 0
    for s in flat:
        if s[0] == 'GS': depth += 1
        elif s[0] == 'GE': depth -= 1
        elif s[0] == 'TA1' and depth > 0:
            return False
    return True


def set_errors(st):
    n = len(st['errors']) + len(st['ele'])
    for s in st['segs']:
        n += len(s['errors']) + len(s['ele'])
    return n


def late_errors(st):
    """errors hung on a set after its SE had been processed (segments that follow the trailer)"""
    if st.get('se_line') is None:
        return 0
    return sum(len(s['errors']) + len(s['ele']) for s in st['segs'] if s['line'] is not None and s['line'] > st['se_line'])


def group_errors(g):
    return len(g['errors']) + len(g['ele']) + sum(set_errors(s) for s in g['st'])


def parse_ack(ack):
    """-> dict(isa, gs, groups=[{ak1, sets=[{ak2, lines=[...], ak5}], ak9}], complete)"""
    from mc import pipe
    segs = pipe.ack_segments(ack)
    out = {'isa': None, 'gs': None, 'groups': [], 'complete': bool(segs) and segs[-1][0] == 'IEA', 'segs': segs}
    for s in segs:
        if s[0] == 'ISA': out['isa'] = s
        elif s[0] == 'GS': out['gs'] = s
        elif s[0] == 'AK1': out['groups'].append({'ak1': s, 'sets': [], 'ak9': None})
        elif s[0] == 'AK2' and out['groups']: out['groups'][-1]['sets'].append({'ak2': s, 'lines': [], 'ak5': None})
        elif s[0] in ('AK3', 'AK4', 'IK3', 'IK4', 'CTX') and out['groups'] and out['groups'][-1]['sets']:
            out['groups'][-1]['sets'][-1]['lines'].append(s)
        elif s[0] in ('AK5', 'IK5') and out['groups'] and out['groups'][-1]['sets']:
            out['groups'][-1]['sets'][-1]['ak5'] = s
        elif s[0] == 'AK9' and out['groups']:
            out['groups'][-1]['ak9'] = s
    return out


def g(s, i):
    return s[i] if s is not None and i < len(s) else None


def echo(v):
    """a source value as it can appear in the acknowledgement: X12 has no escape mechanism, so the
    acknowledgement's own delimiters cannot be carried (C06); everything else is kept character for character"""
    if v is None:
        return v
    return ''.join(c for c in v if c not in '~*:^\r\n')


def judge(text, o):
    """-> list of (key, msg); o = pipe.Obs of a completed validation"""
    v = []
    if o.errors is None:
        return v
    nerr = len(o.errors)
    if (o.verdict is True) != (nerr == 0):
        v.append(('C05|verdict|%s with %s' % (o.verdict, 'no error' if nerr == 0 else 'errors'), 'verdict %r but the error tree holds %d errors %r' % (o.verdict, nerr, o.errors[:3])))
    if not o.ack:
        return v
    src = source_structure(text)
    if not src or not src[-1]['gs']:
        return v
    toks, _d = ref.tokenize(text)
    flat = [[t.id] + [':'.join(c) for c in t.eles] for t in toks if t.id is not None]
    nested = ref.nests(flat) and ta1_in_place(flat)
    nt = 'nested' if nested else 'not-nested'
    ack = parse_ack(o.ack)
    tree_groups = [(i, gi, gr) for i, isa in enumerate(o.tree) for gi, gr in enumerate(isa['gs'])]
    src_groups = [gr for isa in src for gr in isa['gs']]
    if not ack['complete']:
        v.append(('C05|ack|incomplete', 'acknowledgement does not end with IEA: %r' % o.ack[-160:]))
        return v
    if not nested:
        # "every group / set received" is only well defined when headers and trailers nest; for other
        # inputs only the tree-vs-acknowledgement agreement of the accept codes is compared
        if len(ack['groups']) == len(tree_groups):
            for ag, (ii, gi, tg) in zip(ack['groups'], tree_groups):
                if len(ag['sets']) == len(tg['st']):
                    for as_, ts in zip(ag['sets'], tg['st']):
                        ne = set_errors(ts); code = g(as_['ak5'], 1)
                        if (code == 'A') != (ne == 0):
                            v.append(('C05|ack|not-nested|AK5 %s with %s' % (code, 'no error' if ne == 0 else 'errors'), 'AK5/IK5 %r but %d errors inside the set' % (as_['ak5'], ne)))
                ge = group_errors(tg)
                if (g(ag['ak9'], 1) == 'A') != (ge == 0):
                    v.append(('C05|ack|not-nested|AK9 %s with %s' % (g(ag['ak9'], 1), 'no error' if ge == 0 else 'errors'), 'AK9 %r but %d errors inside the group' % (ag['ak9'], ge)))
        # ... and, when the acknowledgement names exactly as many groups (sets) as there are GS (ST) segments, each
        # must carry its own control number: which header "its own" is does not depend on the lost trailers
        if len(ack['groups']) == len(src_groups):
            for sg, ag in zip(src_groups, ack['groups']):
                if len(sg['gs']) > 5 and (g(ag['ak1'], 1) != echo(g(sg['gs'], 0)) or g(ag['ak1'], 2) != echo(g(sg['gs'], 5))):
                    v.append(('C05|ack|not-nested|AK1 does not name the group', 'AK1 %r vs GS01/GS06 %r/%r' % (ag['ak1'], g(sg['gs'], 0), g(sg['gs'], 5))))
                if len(ag['sets']) == len(sg['st']) and all(ss['st01'] and ss['st02'] for ss in sg['st']):
                    for ss, as_ in zip(sg['st'], ag['sets']):
                        if g(as_['ak2'], 1) != echo(ss['st01']) or g(as_['ak2'], 2) != echo(ss['st02'] or '').strip():
                            v.append(('C05|ack|not-nested|AK2 does not name the set', 'AK2 %r vs ST01/ST02 %r/%r' % (as_['ak2'], ss['st01'], ss['st02'])))
        return v
    # segments of every set of the source, by (group ordinal, set ordinal within the group)
    src_sets = {}
    sub_sep = _d[2]
    gi_ = -1; si_ = -1; cur = None
    for t in toks:
        if t.id is None:
            continue
        if t.id == 'GS':
            gi_ += 1; si_ = -1
        elif t.id == 'ST':
            si_ += 1; cur = []; src_sets[(gi_, si_)] = cur
        if cur is not None:
            cur.append(t)
        if t.id == 'SE':
            cur = None
    # envelope discrepancies of a SET (reused ST02, SE02 / SE01 wrong), recounted from the source: they belong to THAT set
    want_st = {}
    try:
        if not all(ss_['st01'] and ss_['st02'] for g_ in src_groups for ss_ in g_['st']):
            raise ValueError('a header without identifier / control number: which set an error belongs to is left open')
        # element values as the reader delivers them: trailing empty components dropped
        flat_r = [[t.id] + [':'.join(ref.trim([c])[0]) if ref.trim([c]) else '' for c in t.eles] for t in toks if t.id is not None]
        exp_, expend_, loose_ = ref.recount(flat_r)
        gi_ = -1; si_ = -1
        for i_, s_ in enumerate(flat_r):
            if s_[0] == 'GS':
                gi_ += 1; si_ = -1
            elif s_[0] == 'ST':
                si_ += 1
            for (lvl_, code_) in exp_[i_]:
                if lvl_ == 'st' and s_[0] in ('ST', 'SE'):
                    want_st.setdefault((gi_, si_), set()).add(code_)
    except Exception:
        want_st = None
    # addressed back to the sender (the ack is written for the last interchange / group header seen)
    last_isa = src[-1]['isa']
    last_gs = src_groups[-1]['gs']
    a = ack['isa']
    if a is None or len(a) < 9 or len(last_isa) < 8 or a[6].strip() != echo(last_isa[7]).strip() or a[8].strip() != echo(last_isa[5]).strip() or a[5].strip() != echo(last_isa[6]).strip() or a[7].strip() != echo(last_isa[4]).strip():
        v.append(('C05|ack|not addressed back (ISA)', 'ack ISA %r vs source ISA05-08 %r' % (a[5:9] if a else None, last_isa[4:8])))
    ags = ack['gs']
    if ags is None or len(last_gs) < 3 or g(ags, 2) != echo(last_gs[2]).rstrip() or g(ags, 3) != echo(last_gs[1]).rstrip():
        v.append(('C05|ack|not addressed back (GS)', 'ack GS02/03 %r vs source GS02/03 %r' % (ags[2:4] if ags else None, last_gs[1:3])))
    # one AK1 per source group, in order
    if len(ack['groups']) != len(src_groups):
        v.append(('C05|ack|group count', 'source has %d functional groups, acknowledgement names %d' % (len(src_groups), len(ack['groups']))))
        return v
    if len(tree_groups) != len(src_groups):
        return v            # the tree itself lost groups: not an ack matter
    for k, (sg, ag, (ii, gi, tg)) in enumerate(zip(src_groups, ack['groups'], tree_groups)):
        if g(ag['ak1'], 1) != echo(g(sg['gs'], 0)) or g(ag['ak1'], 2) != echo(g(sg['gs'], 5)):
            v.append(('C05|ack|AK1 does not name the group', 'AK1 %r vs GS01/GS06 %r/%r' % (ag['ak1'], g(sg['gs'], 0), g(sg['gs'], 5))))
        if len(ag['sets']) != len(sg['st']) and all(ss['st01'] and ss['st02'] for ss in sg['st']):
            v.append(('C05|ack|set count', 'group %d: source has %d sets, acknowledgement names %d' % (k, len(sg['st']), len(ag['sets']))))
            continue
        if len(tg['st']) != len(sg['st']):
            continue
        accepted = 0
        late_sets = 0
        if any(not ss['st01'] or not ss['st02'] for ss in sg['st']):
            continue        # a header without identifier / control number: whether it is a 'set received' is left open
        for si2, (ss, as_, ts) in enumerate(zip(sg['st'], ag['sets'], tg['st'])):
            if g(as_['ak2'], 1) != echo(ss['st01']) or g(as_['ak2'], 2) != echo(ss['st02'] or '').strip():
                v.append(('C05|ack|AK2 does not name the set', 'AK2 %r vs ST01/ST02 %r/%r' % (as_['ak2'], ss['st01'], ss['st02'])))
            ne = set_errors(ts)
            code = g(as_['ak5'], 1)
            late = late_errors(ts)
            if (code == 'A') != (ne == 0):
                if code == 'A' and late == ne:
                    v.append(('C05|ack|AK5 A although errors were hung on the set after its SE', 'set %r: AK5/IK5 %r, %d errors attached after the trailer' % (ss['st02'], as_['ak5'], ne)))
                else:
                    v.append(('C05|ack|AK5 %s with %s' % (code, 'no error' if ne == 0 else 'errors'), 'set %r: AK5/IK5 %r but %d errors inside it' % (ss['st02'], as_['ak5'], ne)))
            if ne == 0:
                accepted += 1
            elif late == ne:
                late_sets += 1
            # set-level envelope errors sit on the set the recount attributes them to
            if want_st is not None:
                w_ = want_st.get((k, si2), set())
                g_ = set(c for c in ts['errors'] if c in ('3', '4', '23'))
                if w_ != g_:
                    v.append(('C05|tree|set-level envelope error on the wrong set', 'set %r (group %d, set %d): the recount expects set-level codes %r here, the tree holds %r' % (ss['st02'], k, si2, sorted(w_), sorted(g_))))
            # itemisation
            v.extend(itemised(ts, as_))
            # the offending value the tree carries is the value the source has at that place
            v.extend(values_from_source(ts, src_sets.get((k, si2)), sub_sep))
        ge = group_errors(tg)
        a9 = ag['ak9']
        only_late = ge > 0 and ge == sum(late_errors(t) for t in tg['st'])
        if (g(a9, 1) == 'A') != (ge == 0):
            if only_late and g(a9, 1) == 'A':
                v.append(('C05|ack|AK9 A although errors were hung on a set after its SE', 'group %r: AK9 %r' % (g(sg['gs'], 5), a9)))
            else:
                v.append(('C05|ack|AK9 %s with %s' % (g(a9, 1), 'no error' if ge == 0 else 'errors'), 'group %r: AK9 %r but %d errors inside it' % (g(sg['gs'], 5), a9, ge)))
        if sg['closed']:
            dec = ref.toint(sg['ge01'])
            if dec is not None and g(a9, 2) != str(dec):
                v.append(('C05|ack|AK902', 'AK902 %r, GE01 declared %r' % (g(a9, 2), sg['ge01'])))
            if g(a9, 3) != str(len(sg['st'])):
                v.append(('C05|ack|AK903', 'AK903 %r, sets received %d' % (g(a9, 3), len(sg['st']))))
            if g(a9, 4) != str(accepted) and not (late_sets and g(a9, 4) == str(accepted + late_sets)):
                v.append(('C05|ack|AK904', 'AK904 %r, sets without error %d' % (g(a9, 4), accepted)))
    return v


VALUE_CODES = ('4', '5', '7', '8', '9')      # errors about the value an element HAS (6 names the offending character, 1/2/3/10 concern absent or surplus elements)


def values_from_source(ts, segs, sub_sep):
    v = []
    if not segs:
        return v
    for s in ts['segs']:
        if not isinstance(s['count'], int) or not (1 <= s['count'] <= len(segs)):
            continue
        t = segs[s['count'] - 1]
        if t.id != s['id']:
            continue
        for (pos, sub, code, val) in s['ele']:
            if code not in VALUE_CODES or val is None or not isinstance(pos, int) or not (1 <= pos <= len(t.eles)):
                continue
            comps = t.eles[pos - 1]
            cands = [sub_sep.join(comps), sub_sep.join(ref.trim([comps])[0]) if ref.trim([comps]) else '']
            if sub and isinstance(sub, int) and 1 <= sub <= len(comps):
                cands.append(comps[sub - 1])
            elif not sub and len(comps) == 1:
                cands.append(comps[0])
            if val not in cands:
                v.append(('C05|tree|offending value is not the source value', 'element error %s at %s #%s pos %s-%s carries %r, the source has %r' % (code, s['id'], s['count'], pos, sub, val, cands[0])))
    return v


def itemised(ts, as_):
    v = []
    lines = as_['lines']
    k3 = [l for l in lines if l[0] in ('AK3', 'IK3')]
    for s in ts['segs']:
        for (code, val) in s['errors']:
            if code in AK3_CODES:
                if not any(g(l, 1) == s['id'] and g(l, 2) == str(s['count']) and g(l, 4) == code for l in k3):
                    v.append(('C05|ack|segment error not itemised', 'segment error %s at %s #%s has no AK3/IK3 line; lines %r' % (code, s['id'], s['count'], ['*'.join(l) for l in lines][:6])))
        for (pos, sub, code, val) in s['ele']:
            if code not in AK4_CODES:
                continue
            found = False
            cur = None
            for l in lines:
                if l[0] in ('AK3', 'IK3'):
                    cur = l
                elif l[0] in ('AK4', 'IK4') and cur is not None and g(cur, 1) == s['id'] and g(cur, 2) == str(s['count']):
                    p = (g(l, 1) or '').split(':')
                    if p[0] == str(pos) and (not sub or (len(p) > 1 and p[1] == str(sub))) and g(l, 3) == code:
                        # AK404 / IK404 is the offending value without the characters the acknowledgement itself is written
                        # with (~ * : and the repetition separator ^): X12 has no escape mechanism (as in C03, DESIGN 10 row 15)
                        if not val or '*'.join(l[4:]) == ''.join(c for c in val if c not in '~*:^\r\n'):
                            found = True
            if not found:
                v.append(('C05|ack|element error not itemised', 'element error %s at %s #%s pos %s-%s value %r not found; lines %r'
                          % (code, s['id'], s['count'], pos, sub, val, ['*'.join(l) for l in lines][:8])))
    return v


def observe(text):
    from mc import pipe
    pipe.stub_clock()
    return pipe.run(text, sinks=('ack',), want_nodes=False)


def run_text(label, text):
    o = observe(text)
    if o.exc:
        return None, 'validation does not complete (C07 domain): %s@%s' % (o.exc, o.exc_where)
    if o.tree_exc:
        return [('C05|tree|visitor raises %s' % o.tree_exc, 'walking the error tree raised %s' % o.tree_exc)], None
    return judge(text, o), None


def items(tier_thorough, family):
    if family == 'valid':
        return corpus.valid_docs(tier_thorough)
    if family == 'fault':
        return corpus.fault_docs(tier_thorough)
    if family == 'shape':
        return corpus.shape_docs()
    if family == 'suite':
        return corpus.suite_docs()
    if family == 'envelope':
        return corpus.envelope_docs()
    if family == 'ta1':
        return corpus.ta1_docs()
    if family == 'address':
        return corpus.address_docs()
    if family == 'mixed':
        return corpus.mixed_docs()
    if family == 'mutant':
        def gen_():
            bases = [it for it in corpus.suite_docs() if it[0] in ('suite:simple_837p', 'suite:834_lui_id_5010', 'suite:mult_isa')]
            if tier_thorough:
                bases += [it for it in corpus.valid_docs(False) if it[0].endswith(':min')]
            for lab, txt, info in bases:
                t = txt if isinstance(txt, str) else txt.text(eol='\n')
                for ml, mt in corpus.mutations(t):
                    yield ('mutant:%s:%s' % (lab, ml), mt, {})
        return gen_()
    raise ValueError(family)


def work(shard):
    family, part, nparts, thorough = shard
    P = core.Part()
    for i, it in enumerate(ITEMS[family]):
        if i % nparts != part:
            continue
        text = it[1]
        P.n += 1
        v, skip = run_text(it[0], text)
        if skip:
            P.counters['skipped: ' + skip.split(':')[0]] += 1
            continue
        P.out('%s|%s' % (family, it[0].split(':')[2] if family in ('valid', 'fault') and it[0].count(':') >= 2 else it[0].split(':')[1][:12]))
        for k, m in v:
            P.bad(k, {'label': it[0], 'text': text}, '%s: %s' % (it[0], m))
        if not v and P.n % 41 == 1:
            P.sample({'label': it[0], 'bytes': len(text)}, cap=1)
    return P


def evaluate(case):
    v, skip = run_text(case['label'], case['text'])
    return v or []


ITEMS = {}


def materialise(thorough, families):
    """enumerate every family once in the parent; the forked workers index into the lists"""
    for fam in families:
        if fam not in ITEMS:
            ITEMS[fam] = [(it[0], corpus.text_of(it), {}) for it in items(thorough, fam)]


def run(R):
    shards = []
    for fam, n in (('valid', 16), ('fault', 32), ('shape', 16), ('suite', 4), ('envelope', 16), ('ta1', 4), ('address', 4), ('mixed', 8), ('mutant', 48)):
        for p in range(n):
            shards.append((fam, p, n, R.thorough))
    materialise(R.thorough, sorted(set(s[0] for s in shards)))
    R.cov['documents_per_family'] = dict((k, len(v)) for k, v in ITEMS.items())
    R.pmap(work, shards)
    R.bounds = {'valid': 'per map: min, all, all-filled, 2 sets/groups/interchanges, last codes' + (' + every d<=1 plan' if R.thorough else ''),
                'fault': 'per map one target per C03 fault kind' + (' / per definition signature' if R.thorough else ''),
                'shape': '{1,2,3}^3 interchanges x groups x sets for two maps, clean and with a faulty first/middle/last set',
                'suite': 'all sources of pyx12.test.x12testdata', 'ta1': '1..3 interchanges of two maps, every non-empty subset of them asking for a TA1 (ISA14=1)', 'mixed': 'files of two interchanges of different maps / versions (4 maps, every ordered pair), clean and with a faulty last set', 'address': 'sender and receiver under different id qualifiers (ISA05 != ISA07: 30/ZZ, ZZ/01, 01/30), 1 and 2 interchanges, three maps', 'envelope': 'one envelope discrepancy (reused ISA13/GS06/ST02, wrong trailer id, count +1/-1/x) at every header and trailer of 1x1x3 and 2x2x2 documents of two maps', 'mutant': 'every single structural mutation (corpus.mutations) of %s base documents' % ('3 + every minimal document' if R.thorough else '3')}
    R.assumptions = ['documents on which validation raises are C07 matters and skipped here (counted)',
                     'AK404/IK404 equality is not demanded when the value contains an acknowledgement delimiter (C06 covers that)',
                     'AK902 compared only when GE01 is numeric and the group was closed by a GE']
    return R.finish(LEVEL, 'one document per execution; distinct = (family, plan / fault kind / source)', exhaustive=True)
